"""C44 An operator function can be applied to many sources independently (virtual time, differential).

Run A: ONE operator object `op = ops.X(args)` applied to 2-3 independent sources.
Run B: a fresh `ops.X(args)` per source.
Same sources, same interleaved schedule of subscribe / unsubscribe / connect / disconnect actions: every subscriber's
notification tree and every source subscription interval must be identical in both runs.
"""
from __future__ import annotations

from typing import Any

from ..common import UnitResult, case_rng, chunks, show
from ..vlab import show_timeline
from ._c04_ops import C44_ENTRIES, ENTRIES, Env, canon, count_children, gen_source, new_lab, show_tree, tree_trace

ID = "C44"
LEVEL = "exploration"
RULE = ("seeded random cases: one operator factory of the catalog (every `op`-kind call shape of C04's table plus "
        "publish / publish(mapper) / share / ref_count / replay / replay(mapper) / publish_value / publish_value(mapper) / "
        "multicast(subject_factory[, mapper]) / publish+ref_count / replay+ref_count) with generated arguments, applied to "
        "2-3 independent probe sources (cold, some hot; 0..5 elements ending C/E/never); 1-3 subscribers per application "
        "subscribing (and optionally unsubscribing) at generated virtual times 0..40 that interleave the applications; "
        "connectable results get 1-2 connect() calls and optional disconnects at generated times. The whole schedule is "
        "executed twice: shared operator object vs fresh operator per source. multicast(subject=s) is excluded. "
        "non-trivial = some subscriber of the fresh run received >= 1 notification; distinct = digest of "
        "(entry, arguments, source timelines, schedule)")
ASSUMPTIONS = ["reactivex.testing.TestScheduler is the clock and orders same-instant actions FIFO (checked by C28)",
               "probe sources are harness code; observable-valued operator arguments are cold probe sources shared by both "
               "the shared and the fresh operators of one run (cold sources are re-subscribable)",
               "exceptions are compared by type and arguments",
               "the reference run (fresh operator per source) is the same library code: defects that do not depend on "
               "sharing the operator object are invisible here (they belong to C04/C24)"]
CASES = {"quick": 4000, "thorough": 160000}
REQUIRED = {"set:entries": len(C44_ENTRIES),
            "interleaved_cases": {"quick": 2000, "thorough": 60000},
            "connectable_cases": {"quick": 150, "thorough": 8000},
            "connect_calls": {"quick": 400, "thorough": 16000},
            "children_compared": {"quick": 200, "thorough": 5000},
            "notifications_compared": {"quick": 20000, "thorough": 500000}}
LABELS = {"ref_count": "state-in-factory-closure",
          "replay": "subject-built-with-operator",
          "publish_value": "subject-built-with-operator",
          "replay_ref_count": "subject-built-with-operator+state-in-factory-closure"}
# the multicasting factories (the only ones that hand out connectables / keep subscriber counts) get 4x weight
WEIGHTED = C44_ENTRIES + [n for n in C44_ENTRIES if not ENTRIES[n].c04] * 3
GRID = [0, 0, 1, 3, 5, 5, 6, 10, 10, 11, 15, 16, 20, 21, 25, 30, 40]
HOT_BASE = 4


def units(tier: str, seed: int) -> list[dict]:
    return [{"lo": lo, "hi": hi, "seed": seed} for lo, hi in chunks(CASES[tier], 16 if tier == "quick" else 64)]


# ------------------------------------------------------------------------------------------ generation

def gen_case(r: Any, idx: int) -> dict:
    name = WEIGHTED[idx % len(WEIGHTED)]
    e = ENTRIES[name]
    domain = e.domain or r.choice(["ints", "ints", "dups", "hfalsy"])
    P = e.gen(r)
    nsrc = r.choice([2, 2, 3])
    ups = []
    for i in range(nsrc):
        kind = "hot" if r.random() < 0.2 else "cold"
        tl = gen_source(r, e.srcs[0], domain)
        if kind == "hot":
            tl = [(t + HOT_BASE, k, v) for (t, k, v) in tl]
        ups.append({"kind": kind, "tl": tl})
    extras = [gen_source(r, s, domain) for s in e.srcs[1:]]
    actions = []   # [t, kind, app, subscriber]
    for i in range(nsrc):
        for j in range(r.choice([1, 2, 2, 3])):
            t = r.choice(GRID)
            actions.append([t, "sub", i, j])
            if r.random() < 0.4:
                actions.append([t + r.choice([0, 1, 4, 5, 9, 10, 20]), "unsub", i, j])
        for c in range(r.choice([1, 1, 2])):
            t = r.choice(GRID)
            actions.append([t, "connect", i, c])
            if r.random() < 0.4:
                actions.append([t + r.choice([1, 5, 10, 12, 20]), "disconnect", i, c])
    # a subscriber of one application that subscribes a new observer to ANOTHER application from inside its first on_next
    # (re-entrant cross subscription): whatever the shared operator keeps per object (a trampoline, a lock) is then in use
    nested = None
    if r.random() < 0.25:
        i = r.randrange(nsrc)
        nested = {"t": r.choice(GRID), "app": i, "inner_app": (i + 1) % nsrc}
    r.shuffle(actions)
    actions.sort(key=lambda a: a[0])   # stable: same-instant order is the shuffled order
    return {"entry": name, "P": P, "ups": ups, "extras": extras, "actions": actions, "domain": domain, "nested": nested}


def describe(case: dict, connectable: bool | None = None) -> dict:
    acts = [a for a in case["actions"] if connectable is not False or a[1] in ("sub", "unsub")]
    return {"entry": case["entry"], "args": show(case["P"]),
            "sources": [{"kind": u["kind"], "timeline": show_timeline(u["tl"])} for u in case["ups"]],
            "argument_sources": [show_timeline(tl) for tl in case["extras"]],
            "schedule": [[a[0], a[1], "app%d" % a[2], a[3]] for a in acts]}


# ------------------------------------------------------------------------------------------ execution

class Run:
    def __init__(self) -> None:
        self.lab: Any = None
        self.obs: dict = {}        # (app, subscriber) -> ProbeObserver
        self.raised: dict = {}     # action -> exception raised synchronously by subscribe()/connect()
        self.connectable = False
        self.connects = 0
        self.over_budget = False


def execute(case: dict, shared: bool) -> Run:
    run = Run()
    lab = new_lab()
    run.lab = lab
    e = ENTRIES[case["entry"]]
    env = Env(lab, [[]] + case["extras"], prefix="arg")
    ups = [getattr(lab, u["kind"])("up%d" % i, u["tl"]) for i, u in enumerate(case["ups"])]
    one = e.make(env, case["P"]) if shared else None
    apps = []
    for u in ups:
        op = one if shared else e.make(env, case["P"])
        apps.append(op(e.prep(env, u) if e.prep else u))
    run.connectable = all(hasattr(a, "connect") for a in apps)
    conns: dict = {}

    def act(a: list) -> None:
        t, kind, i, j = a
        key = (kind, i, j)
        try:
            if kind == "sub":
                o = lab.observer("app%d.sub%d" % (i, j))
                run.obs[(i, j)] = o
                o.subscribe_to(apps[i])
            elif kind == "unsub":
                if (i, j) in run.obs:
                    run.obs[(i, j)].dispose()
            elif kind == "connect":
                if run.connectable:
                    run.connects += 1
                    lab.add("note", "connect", i, j)
                    conns[(i, j)] = apps[i].connect(lab.ts)
            elif kind == "disconnect":
                if (i, j) in conns:
                    lab.add("note", "disconnect", i, j)
                    conns[(i, j)].dispose()
        except Exception as ex:
            run.raised[key] = ex

    for a in case["actions"]:
        lab.at(a[0], lambda a=a: act(a))
    nested = case.get("nested")
    if nested:
        fired = [False]

        def on_recv(kind: str, value: Any, o: Any) -> None:
            if kind == "N" and not fired[0]:
                fired[0] = True
                inner = lab.observer("app%d.sub8" % nested["inner_app"])
                run.obs[(nested["inner_app"], 8)] = inner
                lab.add("note", "nested-subscribe-begin")
                try:
                    inner.subscribe_to(apps[nested["inner_app"]])
                except Exception as ex:
                    run.raised[("sub", nested["inner_app"], 8)] = ex
                lab.add("note", "nested-subscribe-end")

        def nested_sub() -> None:
            o = lab.observer("app%d.sub9" % nested["app"], on_recv=on_recv)
            run.obs[(nested["app"], 9)] = o
            try:
                o.subscribe_to(apps[nested["app"]])
            except Exception as ex:
                run.raised[("sub", nested["app"], 9)] = ex
        lab.at(nested["t"], nested_sub)
    lab.run()
    run.over_budget = bool(lab.over_budget)
    return run


def intervals(lab: Any) -> dict:
    out: dict = {}
    for ev in lab.ev:
        if ev[2] == "sub":
            out[(ev[3], ev[4])] = [ev[1], None]
        elif ev[2] == "unsub" and (ev[3], ev[4]) in out and out[(ev[3], ev[4])][1] is None:
            out[(ev[3], ev[4])][1] = ev[1]
    return out


def observed(run: Run) -> dict:
    d: dict = {}
    for key, o in sorted(run.obs.items()):
        d["subscriber app%d.sub%d" % key] = tuple(tree_trace(o, 0.0))
    for key, ex in sorted(run.raised.items()):
        d["raised by %s app%d #%d" % key] = canon(ex)
    for (src, sid), (a, b) in sorted(intervals(run.lab).items()):
        d["source %s subscription %d [subscribed, unsubscribed]" % (src, sid)] = (a, b)
    d["exceptions escaped to the scheduler"] = len(run.lab.escaped_to_scheduler)
    # the global order of deliveries (who was called inside whose callback is visible only here: the virtual times are equal)
    d["order of deliveries"] = tuple((e[3], e[4]) if e[2] == "recv" else ("note", e[3]) for e in run.lab.ev
                                     if e[2] == "recv" or (e[2] == "note" and str(e[3]).startswith("nested-")))
    return d


def shown(run: Run) -> dict:
    d: dict = {}
    for key, o in sorted(run.obs.items()):
        d["app%d.sub%d" % key] = show_tree(o, 0.0)
    for key, ex in sorted(run.raised.items()):
        d["raised by %s app%d #%d" % key] = show(ex)
    d["source_intervals"] = {"%s#%d" % k: v for k, v in sorted(intervals(run.lab).items())}
    return d


def interleaved(case: dict) -> bool:
    """some application is subscribed (or connected) between the first and the last action of another application"""
    span: dict = {}
    for n, a in enumerate(case["actions"]):
        if a[1] in ("sub", "connect"):
            s = span.setdefault(a[2], [n, n])
            s[1] = n
    keys = sorted(span)
    for x in keys:
        for y in keys:
            if x != y and span[x][0] < span[y][0] < span[x][1]:
                return True
    return False


def run_case(seed: int, idx: int, res: UnitResult) -> None:
    r = case_rng(seed, ID, idx)
    case = gen_case(r, idx)
    fresh = execute(case, shared=False)
    shared = execute(case, shared=True)
    e = ENTRIES[case["entry"]]
    desc = describe(case, fresh.connectable)
    nontrivial = any(o.recv for o in fresh.obs.values())
    res.case(key=desc, nontrivial=nontrivial, sample={"case": desc, "fresh_operator_per_source": shown(fresh), "shared_operator": shown(shared)})
    res.note("entries", case["entry"])
    res.note("groups", e.group)
    res.count("applications", len(case["ups"]))
    res.count("subscribers", len(fresh.obs))
    res.count("notifications_compared", sum(len(x.recv) for o in fresh.obs.values() for x in o.tree()))
    res.count("children_compared", sum(count_children(o) for o in fresh.obs.values()))
    res.count("source_intervals_compared", len(intervals(fresh.lab)))
    if any(u["kind"] == "hot" for u in case["ups"]):
        res.count("cases_with_hot_source")
    if interleaved(case):
        res.count("interleaved_cases")
    if fresh.connectable:
        res.count("connectable_cases")
        res.count("connect_calls", fresh.connects)
    if fresh.over_budget:
        res.count("over_budget_unjudged")
        return
    a, b = observed(fresh), observed(shared)
    if a != b:
        diff = sorted(k for k in set(a) | set(b) if a.get(k) != b.get(k))
        mech = "C44:%s:%s" % (e.group, LABELS.get(e.group, "shared-operator-differs"))
        res.violation(mech, {"why": "shared operator object behaves differently from a fresh operator per source",
                             "differs_in": diff[:8], "case": desc, "fresh_operator_per_source": shown(fresh),
                             "shared_operator": shown(shared)}, {"seed": seed, "idx": idx})


def run_unit(unit: dict, res: UnitResult) -> None:
    _guard_real_time()
    for idx in range(unit["lo"], unit["hi"]):
        run_case(unit["seed"], idx, res)
        if LEAKS:
            res.inconclusive.append("harness: wall-clock scheduler reached in case %d" % idx)
            del LEAKS[:]


def replay(rep: dict, res: UnitResult) -> None:
    _guard_real_time()
    run_case(rep["seed"], rep["idx"], res)


LEAKS: list = []


def _guard_real_time() -> None:
    from reactivex.scheduler import TimeoutScheduler

    def boom(self: Any, *a: Any, **kw: Any) -> Any:
        LEAKS.append("TimeoutScheduler")
        raise AssertionError("harness: wall-clock TimeoutScheduler reached from a virtual-time case")
    TimeoutScheduler.schedule = boom  # type: ignore[method-assign]
    TimeoutScheduler.schedule_relative = boom  # type: ignore[method-assign]
    TimeoutScheduler.schedule_absolute = boom  # type: ignore[method-assign]
