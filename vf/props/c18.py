"""C18 Windows and buffers partition the source correctly (virtual time, trace-driven window model)."""
from __future__ import annotations

import datetime as _dt
import itertools
from functools import lru_cache
from typing import Any

import reactivex.operators as ops

from ..common import UnitResult, case_rng, chunks, show, strict
from ..single import SUB_AT, make_input
from ..vlab import Lab, gen_timeline, show_timeline
from ._c18_trace import (INF, Trace, check_buffers, check_end, check_subscribed, check_top_term, check_windows,
                         deliveries, teq, tlt, windows_to_buffers)

ID = "C18"
LEVEL = "exploration"
RULE = ("seeded random cases: operator (6 window rules x window/buffer), parameters (count/skip 1..5 with skip <,=,> "
        "count; timespan/timeshift tumbling, overlapping, gapped, given as number or timedelta; boundary / closing / "
        "opening timelines on a coarse grid so that same-instant events are frequent), source timeline of 0..9 "
        "elements ending in C/E/never, hot/cold/synchronous, numeric or datetime virtual clock. A probe is subscribed "
        "to every window inside the outer on_next. The model replays the OBSERVED emissions of the source and of the "
        "boundary/closing/opening probes and names for every element the windows it must be in; every delivery is "
        "attributed (by event sequence number) to the source emission that carried it. Elements exactly on a "
        "time-window endpoint and timers due at the instant of an input are ties (both outcomes accepted, counted). "
        "non-trivial = the operator was offered >= 1 element; distinct = digest of (operator, parameters, timelines)")
ASSUMPTIONS = ["TestScheduler / HistoricalScheduler are the clocks (ordering checked by C28)",
               "probe sources and probe observers are harness code (conforming)",
               "window(boundaries)/window_when/window_toggle: what happens when the boundary, closing or opening "
               "sequence itself terminates with an error (or the boundary sequence completes) is not fixed by the "
               "statement: the check stops judging at that event (counter cutoff_cases)",
               "window_toggle: the terminal notification of the OUTER sequence is governed by the openings and is not "
               "judged; the windows are",
               "buffer operators emit one list per window (empty windows give empty lists) except buffer_with_count, "
               "which drops empty lists (DESIGN.md section 5)"]
CASES = {"quick": 4800, "thorough": 600000}
OPS = ["window_with_count", "buffer_with_count", "window_with_time", "buffer_with_time",
       "window_with_time_or_count", "buffer_with_time_or_count", "window", "buffer",
       "window_when", "buffer_when", "window_toggle", "buffer_toggle"]
FAM = {"window_with_count": "count", "buffer_with_count": "count", "window_with_time": "time", "buffer_with_time": "time",
       "window_with_time_or_count": "toc", "buffer_with_time_or_count": "toc", "window": "boundary", "buffer": "boundary",
       "window_when": "when", "buffer_when": "when", "window_toggle": "toggle", "buffer_toggle": "toggle"}
REQUIRED = {"set:ops": len(OPS), "count_resubscription_cases": {"quick": 400, "thorough": 40000}, "set:clock_param": 4, "set:shapes": 6,
            "ties": {"quick": 100, "thorough": 5000},
            "same_instant_aux_and_element": {"quick": 40, "thorough": 800},
            "windows_checked": {"quick": 3000, "thorough": 250000}}
UNIT_TIMEOUT = {"quick": 300, "thorough": 2400}
STEPS = (0, 5, 5, 10, 10, 15, 1, 4, 6)
T0 = SUB_AT
ACTION_BUDGET = 4000   # a legitimate case runs < 400 scheduler actions


class Runaway(Exception):
    """the operator keeps the virtual-time scheduler busy far beyond what its rule needs"""


def units(tier: str, seed: int) -> list[dict]:
    return [{"lo": lo, "hi": hi, "seed": seed} for lo, hi in chunks(CASES[tier], 16 if tier == "quick" else 64)]


# ------------------------------------------------------------------------------------------- case generation

def gen_closing(r: Any) -> list:
    c = r.random()
    if c < 0.12:
        return []
    d = r.choice(STEPS + (20,))
    if c < 0.5:
        return [(d, "N", r.randint(0, 9))]
    if c < 0.7:
        return [(d, "C", None)]
    e = r.choice((0, 5, 10))
    if c < 0.85:
        return [(d, "N", 1), (d + e, "N", 2)]
    return [(d, "N", 1), (d + e, "C", None)]


def gen_case(r: Any, idx: int) -> dict:
    op = OPS[idx % len(OPS)]
    fam = FAM[op]
    domain = r.choice(["ints", "dups", "falsy", "falsy"])
    clock = r.choice(["num", "dt"])
    c = r.random()
    kind = "sync" if (fam != "time" and c < 0.07) else ("hot" if c < 0.42 else "cold")
    tl = gen_timeline(r, domain, maxlen=9)
    P: dict = {}
    if fam == "count":
        cnt = r.choice([1, 1, 2, 2, 3, 3, 4, 5])
        P["count"] = cnt
        P["skip"] = r.choice([None, None, 1, 2, 3, 4, 5, cnt, cnt + 1, max(1, cnt - 1)])
    elif fam == "time":
        span = r.choice([5, 5, 10, 10, 15, 2.5, 7, 20])
        P["span"] = span
        P["shift"] = r.choice([None, None, span, 5, 10, 2.5, span / 2, span * 2, span + 5, 15])
        P["td"] = r.random() < 0.5
        # who gets the scheduler: subscribe() only / the operator as well / the operator gets the lab's and subscribe() another,
        # working scheduler with a frozen clock (the operator must use the one it was given)
        P["sched"] = r.choice(["sub", "sub", "arg", "both"])
    elif fam == "toc":
        P["span"] = r.choice([5, 10, 10, 15, 7, 20])
        P["count"] = r.choice([1, 2, 2, 3, 4])
        P["td"] = r.random() < 0.5
        P["sched"] = r.choice(["sub", "sub", "arg", "both"])
    elif fam == "boundary":
        P["btl"] = gen_timeline(r, "ints", maxlen=6, term=r.choice([None, None, None, None, "C", "E"]))
        P["bhot"] = r.random() < 0.4
    elif fam == "when":
        P["closings"] = [gen_closing(r) for _ in range(r.randint(1, 7))]
    elif fam == "toggle":
        otl = gen_timeline(r, "ints", maxlen=5, term=r.choice([None, None, None, "C", "E"]))
        n = 0
        new = []
        for (t, k, v) in otl:
            if k == "N":
                new.append((t, k, n))
                n += 1
            else:
                new.append((t, k, v))
        P["otl"] = new
        P["ohot"] = r.random() < 0.4
        P["closings"] = [gen_closing(r) for _ in range(n)]
    return {"op": op, "fam": fam, "P": P, "tl": tl, "kind": kind, "clock": clock, "domain": domain}


def describe(case: dict) -> dict:
    P = {}
    for k, v in case["P"].items():
        if k in ("btl", "otl"):
            P[k] = show_timeline(v)
        elif k == "closings":
            P[k] = [show_timeline(c) for c in v]
        else:
            P[k] = v
    return {"op": case["op"], "params": P, "source": case["kind"], "clock": case["clock"], "timeline": show_timeline(case["tl"])}


def tspan(x: Any, td: bool) -> Any:
    if x is None:
        return None
    return _dt.timedelta(seconds=x) if td else x


# ------------------------------------------------------------------------------------------- running

class Run:
    pass


def execute(case: dict, r: Any) -> Run:
    op, fam, P = case["op"], case["fam"], case["P"]
    lab = Lab(case["clock"])
    run = Run()
    run.lab = lab
    run.mapper_args = []
    if case["kind"] == "sync":
        src = lab.sync("s", case["tl"])
    else:
        msgs, _ = make_input(r, case["tl"], case["kind"] == "hot")
        src = lab.hot("s", msgs) if case["kind"] == "hot" else lab.cold("s", msgs)
    last = T0 + max([t for (t, _, _) in case["tl"]] + [0]) + 2
    horizon = None
    if fam == "count":
        o = getattr(ops, op)(P["count"], P["skip"]) if P["skip"] is not None else getattr(ops, op)(P["count"])
    elif fam == "time":
        shift = P["shift"]
        kw = {"scheduler": lab.ts} if P.get("sched") in ("arg", "both") else {}
        if shift is None:
            o = getattr(ops, op)(tspan(P["span"], P["td"]), **kw)
        else:
            o = getattr(ops, op)(tspan(P["span"], P["td"]), tspan(shift, P["td"]), **kw)
        horizon = last + 2 * max(P["span"], shift or 0) + 0.137
    elif fam == "toc":
        o = getattr(ops, op)(tspan(P["span"], P["td"]), P["count"], **({"scheduler": lab.ts} if P.get("sched") in ("arg", "both") else {}))
        horizon = last + 2 * P["span"] + 0.137
    elif fam == "boundary":
        bm, _ = make_input(r, P["btl"], P["bhot"])
        b = lab.hot("b", bm) if P["bhot"] else lab.cold("b", bm)
        o = getattr(ops, op)(b)
    elif fam == "when":
        closings = P["closings"]

        def mapper0() -> Any:
            i = len(run.mapper_args)
            run.mapper_args.append(None)
            return lab.cold("c%d" % i, closings[i] if i < len(closings) else [])
        o = getattr(ops, op)(mapper0)
    elif fam == "toggle":
        om, _ = make_input(r, P["otl"], P["ohot"])
        opn = lab.hot("o", om) if P["ohot"] else lab.cold("o", om)
        closings = P["closings"]

        def mapper1(v: Any) -> Any:
            i = len(run.mapper_args)
            run.mapper_args.append(v)
            ok = isinstance(v, int) and not isinstance(v, bool) and 0 <= v < len(closings)
            return lab.cold("c%d" % i, closings[v] if ok else [])
        o = getattr(ops, op)(opn, mapper1)
    else:
        raise KeyError(fam)
    top = lab.observer("top")
    if P.get("sched") == "both":
        from ._c15_time import frozen_scheduler
        lab.at(T0, lambda: top.subscribe_to(src.pipe(o), scheduler=frozen_scheduler(lab)))
    else:
        lab.at(T0, lambda: top.subscribe_to(src.pipe(o)))

    def budget(n: int) -> None:
        if n > ACTION_BUDGET:
            raise Runaway("more than %d scheduler actions (virtual time %s)" % (ACTION_BUDGET, lab.now()))
    lab.action_hook = budget
    lab.run(until=horizon)
    run.top, run.horizon, run.tr = top, horizon, Trace(lab)
    return run


# ------------------------------------------------------------------------------------------- models (exact rules)

def _err(inp: Any) -> Any:
    return inp.v if inp.k == "E" else None


def new_spec(open_t: Any, open_cause: Any, open_after: Any = None) -> dict:
    return {"open_t": open_t, "open_cause": open_cause, "open_after": open_after, "elems": [], "close": None, "close_order": 0}


def model_count(tr: Trace, count: int, skip: int) -> dict:
    src = [i for i in tr.inputs if i.src == "s"]
    term = next((i for i in src if i.k in "EC"), None)
    elems = [i for i in src if i.k == "N" and (term is None or i.idx < term.idx)]
    n = len(elems)
    specs = []
    k = 0

    def final_close() -> Any:
        return None if term is None else (term.k, term.idx, term.t, _err(term), "terminal")
    while k * skip < n:
        lo = k * skip
        s = new_spec(None, -1 if k == 0 else None, elems[lo - 1].idx if k > 0 else None)
        s["elems"] = [e.idx for e in elems[lo:lo + count]]
        if lo + count - 1 < n:
            last = elems[lo + count - 1]
            s["close"] = ("C", last.idx, last.t, None, "rule")
            s["close_order"] = last.idx
        else:
            s["close"] = final_close()
            s["close_order"] = INF
        specs.append(s)
        k += 1
    optional_tail = 0
    if n == k * skip:
        # a trailing window that never receives an element: the statement does not say whether it is emitted
        s = new_spec(None, -1 if n == 0 else None, elems[n - 1].idx if n > 0 else None)
        s["close"] = final_close()
        s["close_order"] = INF
        specs.append(s)
        optional_tail = 1
    return {"specs": specs, "optional_tail": optional_tail, "ignore_after": INF,
            "top_term": None if term is None else (term.k, term.idx, _err(term)), "cutoff": False}


def model_boundary(tr: Trace) -> dict:
    specs = []
    cur = new_spec(T0, -1)
    top_term: Any = None
    ignore_after = INF
    cutoff = False
    ncl = 0
    for inp in tr.inputs:
        if inp.src == "s":
            if inp.k == "N":
                cur["elems"].append(inp.idx)
            else:
                cur["close"] = (inp.k, inp.idx, inp.t, _err(inp), "terminal")
                cur["close_order"] = ncl
                top_term = (inp.k, inp.idx, _err(inp))
                break
        elif inp.src == "b":
            if inp.k == "N":
                cur["close"] = ("C", inp.idx, inp.t, None, "rule")
                cur["close_order"] = ncl
                ncl += 1
                specs.append(cur)
                cur = new_spec(inp.t, inp.idx)
            else:
                ignore_after, cutoff = inp.seq, True
                break
    specs.append(cur)
    return {"specs": specs, "optional_tail": 0, "ignore_after": ignore_after, "top_term": top_term, "cutoff": cutoff}


def model_when(tr: Trace) -> dict:
    specs = []
    cur = new_spec(T0, -1)
    top_term: Any = None
    ignore_after = INF
    cutoff = False
    ncl = 0
    stale = 0
    for inp in tr.inputs:
        if inp.src == "s":
            if inp.k == "N":
                cur["elems"].append(inp.idx)
            else:
                cur["close"] = (inp.k, inp.idx, inp.t, _err(inp), "terminal")
                cur["close_order"] = ncl
                top_term = (inp.k, inp.idx, _err(inp))
                break
        elif inp.src == "c%d" % len(specs):
            if inp.k in "NC":
                cur["close"] = ("C", inp.idx, inp.t, None, "rule")
                cur["close_order"] = ncl
                ncl += 1
                specs.append(cur)
                cur = new_spec(inp.t, inp.idx)
            else:
                ignore_after, cutoff = inp.seq, True
                break
        else:
            stale += 1
    specs.append(cur)
    return {"specs": specs, "optional_tail": 0, "ignore_after": ignore_after, "top_term": top_term, "cutoff": cutoff, "stale": stale}


def model_toggle(tr: Trace) -> dict:
    specs: list[dict] = []
    live: dict[int, dict] = {}
    ignore_after = INF
    cutoff = False
    ncl = 0
    stale = 0
    opened_values = []
    for inp in tr.inputs:
        if inp.src == "s":
            if inp.k == "N":
                for s in live.values():
                    s["elems"].append(inp.idx)
            else:
                for s in live.values():
                    s["close"] = (inp.k, inp.idx, inp.t, _err(inp), "terminal")
                    s["close_order"] = ncl
                live = {}
                ignore_after = tr.hi(inp.idx)
                break
        elif inp.src == "o":
            if inp.k == "N":
                s = new_spec(inp.t, inp.idx)
                live[len(specs)] = s
                specs.append(s)
                opened_values.append(inp.v)
            elif inp.k == "E":
                ignore_after, cutoff = inp.seq, True
                break
        else:
            j = int(inp.src[1:])
            if j in live:
                if inp.k in "NC":
                    s = live.pop(j)
                    s["close"] = ("C", inp.idx, inp.t, None, "rule")
                    s["close_order"] = ncl
                    ncl += 1
                else:
                    ignore_after, cutoff = inp.seq, True
                    break
            else:
                stale += 1
    return {"specs": specs, "optional_tail": 0, "ignore_after": ignore_after, "top_term": "skip", "cutoff": cutoff,
            "stale": stale, "opened_values": opened_values}


# ------------------------------------------------------------------------------------------- time or count

def model_toc(tr: Trace, top: Any, span: float, count: int, horizon: float, is_buffer: bool, stats: dict) -> dict:
    """Window w opens when window w-1 closes; it closes after `count` elements or `span` after it opened, whichever
    is first. A timer due exactly at the instant of an input is a tie: the branch is read off the observation
    (was the close of window w observed before that input?)."""
    src = [i for i in tr.inputs if i.src == "s"]
    outs = [x for x in top.recv if x[0] == "N"]
    specs: list[dict] = []

    def fired_before(w: int, seq: int, due: float) -> bool:
        j = w if is_buffer else w + 1
        return j < len(outs) and outs[j][3] < seq and teq(outs[j][2], due)

    cur = new_spec(T0, -1)
    o = T0
    ncl = 0
    top_term: Any = None

    def close(kind: str, cause: Any, t: float, err: Any, why: str) -> None:
        nonlocal ncl
        cur["close"] = (kind, cause, t, err, why)
        cur["close_order"] = ncl
        ncl += 1
        specs.append(cur)

    ended = False
    for inp in src:
        while True:
            due = o + span
            tie = teq(due, inp.t)
            if tlt(due, inp.t) or (tie and fired_before(len(specs), inp.seq, due)):
                if tie:
                    stats["ties"] += 1
                    stats["tie_timer_first"] += 1
                close("C", None, due, None, "rule")
                cur = new_spec(due, None)
                o = due
            else:
                if tie:
                    stats["ties"] += 1
                    stats["tie_input_first"] += 1
                break
        if inp.k == "N":
            cur["elems"].append(inp.idx)
            if len(cur["elems"]) == count:
                close("C", inp.idx, inp.t, None, "rule")
                cur = new_spec(inp.t, inp.idx)
                o = inp.t
        else:
            close(inp.k, inp.idx, inp.t, _err(inp), "terminal")
            top_term = (inp.k, inp.idx, _err(inp))
            ended = True
            break
    if not ended:
        while tlt(o + span, horizon):
            due = o + span
            close("C", None, due, None, "rule")
            cur = new_spec(due, None)
            o = due
        specs.append(cur)
    return {"specs": specs, "optional_tail": 0, "ignore_after": INF, "top_term": top_term, "cutoff": False}


# ------------------------------------------------------------------------------------------- time rule

def time_windows(tr: Trace, span: float, shift: float, horizon: float) -> tuple:
    src = [i for i in tr.inputs if i.src == "s"]
    term = next((i for i in src if i.k in "EC"), None)
    elems = [i for i in src if i.k == "N" and (term is None or i.idx < term.idx)]
    end = term.t if term is not None else horizon
    wins = []
    k = 0
    while True:
        o = T0 + k * shift
        if tlt(end, o) or (term is None and not tlt(o, end)):
            break
        wins.append({"o": o, "c": o + span, "optional": teq(o, end)})
        k += 1
    return term, elems, end, wins


def check_time_windows(tr: Trace, top: Any, span: float, shift: float, horizon: float, stats: dict) -> list:
    term, elems, end, wins = time_windows(tr, span, shift, horizon)
    probs: list = []
    opens = [x for x in top.recv if x[0] == "N"]
    if len(top.children) < len(opens):
        return [("window_count", "outer sequence emitted %d values but only %d are observables" % (len(opens), len(top.children)))]
    n_req = sum(1 for w in wins if not w["optional"])
    if n_req != len(wins):
        stats["ties"] += 1
        stats["tie_open_vs_terminal"] += 1
    if not (n_req <= len(opens) <= len(wins)):
        probs.append(("window_count", "%d windows emitted, the time rule gives %s (subscribed at %s, span %s, shift %s, end %s)" % (
            len(opens), n_req if n_req == len(wins) else "%d..%d" % (n_req, len(wins)), T0, span, shift, end)))
    tumbling = teq(span, shift)
    holders: dict[int, list] = {e.idx: [] for e in elems}
    for k, w in enumerate(wins[:len(opens)]):
        x, child = opens[k], top.children[k]
        if not teq(x[2], w["o"]):
            probs.append(("open", "%s: emitted at t=%s, window %d opens at t=%s" % (child.name, x[2], k, w["o"])))
        if k == 0 and not tr.within(x[3], -1):
            probs.append(("open", "%s: first window emitted after the first source emission" % child.name))
        owners, ps = deliveries(tr, child)
        probs.extend(ps)
        have = set(owners)
        for e in elems:
            inside = tlt(w["o"], e.t) and tlt(e.t, w["c"])
            allowed = not tlt(e.t, w["o"]) and not tlt(w["c"], e.t)
            if e.idx in have:
                holders[e.idx].append(k)
                if not allowed:
                    probs.append(("elements", "%s [%s,%s): holds element #%d %r of t=%s, which is outside" % (child.name, w["o"], w["c"], e.idx, e.v, e.t)))
            elif inside:
                probs.append(("elements", "%s [%s,%s): misses element #%d %r of t=%s" % (child.name, w["o"], w["c"], e.idx, e.v, e.t)))
            if allowed and not inside:
                stats["ties"] += 1
                stats["tie_element_on_endpoint"] += 1
        if tlt(w["c"], end):
            close: Any = ("C", None, w["c"], None, "rule")
        elif term is not None and teq(w["c"], end):
            close = ([("C", None, w["c"], None), (term.k, term.idx, None, _err(term))], None, None, None, "tie")
            stats["ties"] += 1
            stats["tie_close_vs_terminal"] += 1
        elif term is not None:
            close = (term.k, term.idx, term.t, _err(term), "terminal")
        else:
            close = None
        e2 = check_end(tr, child, close)
        if e2 is not None:
            probs.append(e2)
    if tumbling and len(opens) <= len(wins):
        for e in elems:
            if len(holders[e.idx]) != 1:
                probs.append(("elements", "tumbling windows: element #%d %r of t=%s is in windows %s, must be in exactly one" % (
                    e.idx, e.v, e.t, holders[e.idx])))
    probs.extend(check_top_term(tr, top, None if term is None else (term.k, term.idx, _err(term))))
    stats["windows"] += len(opens)
    stats["elements"] += len(elems)
    return probs


def content_match(cands: list, actual: list) -> bool:
    sa = [strict(x) for x in actual]
    sc = [(strict(v), req) for (v, req) in cands]

    @lru_cache(maxsize=None)
    def f(i: int, j: int) -> bool:
        if i == len(sc):
            return j == len(sa)
        if j < len(sa) and sc[i][0] == sa[j] and f(i + 1, j + 1):
            return True
        if not sc[i][1] and f(i + 1, j):
            return True
        return False
    return f(0, 0)


def entries_match(tr: Trace, entries: list, outs: list) -> bool:
    def one(e: dict, x: tuple) -> bool:
        if not isinstance(x[1], list) or not teq(x[2], e["t"]):
            return False
        if e["cause"] is not None and not tr.within(x[3], e["cause"]):
            return False
        return content_match(e["cands"], x[1])

    @lru_cache(maxsize=None)
    def g(k: int, j: int) -> bool:
        if k == len(entries):
            return j == len(outs)
        if j < len(outs) and one(entries[k], outs[j]) and g(k + 1, j + 1):
            return True
        if entries[k]["optional"] and g(k + 1, j):
            return True
        return False
    return g(0, 0)


def check_time_buffers(tr: Trace, top: Any, span: float, shift: float, horizon: float, stats: dict) -> list:
    term, elems, end, wins = time_windows(tr, span, shift, horizon)
    outs = [x for x in top.recv if x[0] == "N"]
    tumbling = teq(span, shift)
    # candidate windows of every element (closed interval), strictly inside => required
    cand: dict[int, list] = {}
    for e in elems:
        cand[e.idx] = [(k, tlt(w["o"], e.t) and tlt(e.t, w["c"])) for k, w in enumerate(wins)
                       if not tlt(e.t, w["o"]) and not tlt(w["c"], e.t)]
        stats["ties"] += sum(1 for (_, inside) in cand[e.idx] if not inside)
        stats["tie_element_on_endpoint"] += sum(1 for (_, inside) in cand[e.idx] if not inside)

    def build(assign: dict | None) -> list:
        entries = []
        for k, w in enumerate(wins):
            if tlt(w["c"], end):
                ent = {"t": w["c"], "cause": None, "optional": False}
            elif term is not None and teq(w["c"], end):
                ent = {"t": w["c"], "cause": None, "optional": term.k == "E"}
            elif term is not None and term.k == "C":
                ent = {"t": term.t, "cause": term.idx, "optional": False}
            else:
                continue
            if w["optional"]:
                ent["optional"] = True
            cs = []
            for e in elems:
                for (kk, inside) in cand[e.idx]:
                    if kk != k:
                        continue
                    if assign is not None and e.idx in assign:
                        if assign[e.idx] == k:
                            cs.append((e.v, True))
                    else:
                        cs.append((e.v, inside))
            ent["cands"] = cs
            entries.append(ent)
        return entries

    ok = False
    if tumbling:
        free = [e.idx for e in elems if len(cand[e.idx]) > 1]
        fixed = {e.idx: cand[e.idx][0][0] for e in elems if len(cand[e.idx]) == 1}
        if len(free) > 12:
            stats["tumbling_enumeration_skipped"] += 1
            ok = entries_match(tr, build(None), outs)
        else:
            for choice in itertools.product(*[[k for (k, _) in cand[i]] for i in free]):
                a = dict(fixed)
                a.update(dict(zip(free, choice)))
                if entries_match(tr, build(a), outs):
                    ok = True
                    break
    else:
        ok = entries_match(tr, build(None), outs)
    probs: list = []
    if not ok:
        model = [{"window": [w["o"], w["c"]], "optional": w["optional"],
                  "elements(value,t,must)": [[show(e.v), e.t, inside] for e in elems for (kk, inside) in cand[e.idx] if kk == k]}
                 for k, w in enumerate(wins)]
        probs.append(("buffer", "buffers %s are not the contents of the time windows under any tie outcome%s; model: %s" % (
            [[show(x[1]), x[2]] for x in outs], " (tumbling: every element in exactly one)" if tumbling else "", model)))
    probs.extend(check_top_term(tr, top, None if term is None else (term.k, term.idx, _err(term))))
    stats["windows"] += len(outs)
    stats["elements"] += len(elems)
    return probs


# ------------------------------------------------------------------------------------------- one case

def run_case(seed: int, idx: int, res: UnitResult) -> None:
    r = case_rng(seed, ID, idx)
    case = gen_case(r, idx)
    op, fam, P = case["op"], case["fam"], case["P"]
    is_buffer = op.startswith("buffer")
    run = execute(case, r)
    tr, top, lab = run.tr, run.top, run.lab
    if any(isinstance(e, Runaway) for e in lab.escaped_to_scheduler):
        desc = describe(case)
        res.case(key=desc, nontrivial=True)
        res.note("ops", op)
        res.violation("C18:%s:runaway_timers" % op, {"why": ["the run did not settle: %s; %d windows/buffers emitted" % (
            lab.escaped_to_scheduler[0], sum(1 for x in top.recv if x[0] == "N"))], "case": desc}, {"seed": seed, "idx": idx})
        return
    stats = {"ties": 0, "tie_timer_first": 0, "tie_input_first": 0, "tie_open_vs_terminal": 0, "tie_close_vs_terminal": 0,
             "tie_element_on_endpoint": 0, "windows": 0, "elements": 0, "tumbling_enumeration_skipped": 0}
    probs: list = []
    model: dict | None = None
    if fam == "time":
        span = float(P["span"])
        shift = float(P["shift"]) if P["shift"] is not None else span
        if is_buffer:
            probs = check_time_buffers(tr, top, span, shift, run.horizon, stats)
        else:
            probs = check_time_windows(tr, top, span, shift, run.horizon, stats)
        res.note("shapes", "time:" + ("tumbling" if teq(span, shift) else ("overlapping" if shift < span else "gapped")))
        res.note("clock_param", "%s/%s" % (case["clock"], "timedelta" if P["td"] else "number"))
    else:
        if fam == "count":
            skip = P["skip"] if P["skip"] is not None else P["count"]
            model = model_count(tr, P["count"], skip)
            res.note("shapes", "count:" + ("skip=count" if skip == P["count"] else ("skip<count" if skip < P["count"] else "skip>count")))
        elif fam == "toc":
            model = model_toc(tr, top, float(P["span"]), P["count"], run.horizon, is_buffer, stats)
            res.note("clock_param", "%s/%s" % (case["clock"], "timedelta" if P["td"] else "number"))
        elif fam == "boundary":
            model = model_boundary(tr)
            if case["kind"] != "sync":
                probs.extend(check_subscribed(lab, tr, [("b", None)]))
        elif fam == "when":
            model = model_when(tr)
            # the closing sequence of window k is obtained and subscribed when window k opens (window 0: at subscription)
            probs.extend(check_subscribed(lab, tr, [("c%d" % k, s["open_cause"] if k > 0 else None)
                                                    for k, s in enumerate(model["specs"]) if k > 0 or case["kind"] != "sync"]))
        else:
            model = model_toggle(tr)
            want = model["opened_values"]
            got = run.mapper_args[:len(want)]
            if [strict(v) for v in got] != [strict(v) for v in want]:
                probs.append(("closing_mapper_args", "closing_mapper was called with %r, the openings emitted %r" % (run.mapper_args, want)))
            probs.extend(check_subscribed(lab, tr, [("o", None)] + [("c%d" % k, s["open_cause"]) for k, s in enumerate(model["specs"])]))
        specs = model["specs"]
        if is_buffer:
            use = specs[:len(specs) - model["optional_tail"]]
            probs.extend(check_buffers(tr, top, windows_to_buffers(tr, use), model["ignore_after"]))
        else:
            # count (skip == count: "closed right after its last element"), time-or-count, boundaries and closing
            # selector give non-overlapping windows: window k is closed before window k+1 is emitted
            seq_rule = fam in ("toc", "boundary", "when") or (fam == "count" and P["skip"] in (None, P["count"]))
            probs.extend(check_windows(tr, top, specs, model["optional_tail"], model["ignore_after"], sequential=seq_rule))
            if model["optional_tail"] and len([x for x in top.recv if x[0] == "N"]) == len(specs):
                res.count("optional_trailing_empty_window_emitted")
        probs.extend(check_top_term(tr, top, model["top_term"], model["ignore_after"]))
        stats["windows"] += len(specs)
        stats["elements"] += sum(len(s["elems"]) for s in specs)
        if model["cutoff"]:
            res.count("cutoff_cases")
        if model.get("stale"):
            res.count("obs_emissions_of_closing_probes_no_longer_current", model["stale"])
        if fam in ("boundary", "when", "toggle"):
            ins = tr.inputs
            res.count("same_instant_aux_and_element", sum(1 for a, b in zip(ins, ins[1:]) if a.t == b.t and a.src != b.src))
            if any(len(s["elems"]) == 0 for s in specs):
                res.count("cases_with_empty_window")
            if fam == "toggle" and any(a["close"] is None or a["close"][4] == "terminal" for a in specs) and len(specs) > 1:
                res.count("toggle_cases_with_overlapping_windows")
    if lab.escaped_to_scheduler:
        probs.append(("escaped", "exception escaped to the scheduler: %r" % (lab.escaped_to_scheduler[0],)))
    esc = lab.events("escaped")
    if esc:
        probs.append(("escaped", "exception escaped into the emitting source: %r" % (esc[0][5],)))

    for k, v in stats.items():
        if v:
            res.count(k if k.startswith("tie") else (k + "_checked" if k in ("windows", "elements") else k), v)
    n_src = sum(1 for i in tr.inputs if i.src == "s" and i.k == "N")
    desc = describe(case)
    observed = {"outer": [[x[2], x[0], show(x[1]) if x[0] != "N" or is_buffer else "<window %d>" % j] for j, x in enumerate(top.recv)]}
    if not is_buffer:
        observed["windows"] = [[c.name, [[t, k, show(v)] for (t, k, v) in c.timed()]] for c in top.children]
    res.case(key=desc, nontrivial=n_src > 0, sample={"case": desc, "inputs": tr.show(), "observed": observed})
    res.note("ops", op)
    res.note("source_kind", case["kind"])
    if any(not i.v for i in tr.inputs if i.src == "s" and i.k == "N"):
        res.count("cases_with_falsy_input")
    term = next((i for i in tr.inputs if i.src == "s" and i.k in "EC"), None)
    res.count("source_" + ("never" if term is None else ("completed" if term.k == "C" else "error")))
    if probs:
        cats = []
        for c, _ in probs:
            if c not in cats:
                cats.append(c)
        detail = {"why": [p for _, p in probs][:8], "case": desc, "inputs(idx,src,t,kind,value)": tr.show(), "observed": observed}
        if model is not None:
            detail["model_windows"] = [{"open_t": s["open_t"], "elems": s["elems"], "close": show(s["close"][:3] + s["close"][4:]) if s["close"] else None}
                                       for s in model["specs"]]
        res.violation("C18:%s:%s" % (op, cats[0]), detail, {"seed": seed, "idx": idx})



# ------------------------------------------------------------------ count rule on a re-subscribed observable
# window_with_count / buffer_with_count built ONCE and subscribed twice over a source that yields different data to the
# second subscription: window k of EACH subscription holds exactly elements k*skip .. k*skip+count-1 of that subscription.

def count_resubscription_case(seed: int, idx: int, res: UnitResult) -> None:
    import reactivex.operators as ops_
    from ..single import SUB_AT as T0
    from ..vlab import Lab as Lab_, gen_timeline as gen_tl
    r = case_rng(seed, ID, "count-resub", idx)
    count = r.randint(1, 4)
    skip = r.choice([None, 1, 2, 3, 4, 5])
    is_buffer = idx % 2 == 0
    tl1 = gen_tl(r, "ints", maxlen=7, term="C")
    tl2 = gen_tl(r, "uniq", maxlen=7, term="C", uniq=[1000])
    lab = Lab_("num")
    src = lab.cold("s", tl1, alt_msgs=[tl2])
    first, second = lab.observer("first"), lab.observer("second")
    holder: dict = {}
    op = (ops_.buffer_with_count if is_buffer else ops_.window_with_count)(count, skip)

    def sub1() -> None:
        holder["o"] = src.pipe(op)
        first.subscribe_to(holder["o"])
    t2 = T0 + max(m[0] for m in tl1) + 35.0
    lab.at(T0, sub1)
    lab.at(t2, lambda: second.subscribe_to(holder["o"]))
    lab.run()
    sk = skip if skip is not None else count
    name = "buffer_with_count" if is_buffer else "window_with_count"
    res.count("count_resubscription_cases")
    for which, obs, tl in (("first", first, tl1), ("second", second, tl2)):
        xs = [v for (t, k, v) in tl if k == "N"]
        exp = [xs[i:i + count] for i in range(0, len(xs), sk)]
        exp = [e for e in exp if e]
        if is_buffer:
            got = [list(v) for v in obs.values]
        else:
            got = [c.values for c in obs.children if c.values]
        if got != exp or not obs.kinds.endswith("C"):
            res.violation("C18:%s:count-rule:%s-subscription" % (name, which),
                          {"count": count, "skip": skip, "elements": xs, "expected": exp, "observed": got, "outer_kinds": obs.kinds},
                          {"seed": seed, "idx": idx, "family": "count-resub"})
            break

def run_unit(unit: dict, res: UnitResult) -> None:
    for idx in range(unit["lo"], unit["hi"]):
        run_case(unit["seed"], idx, res)
        if idx % 8 == 0:
            count_resubscription_case(unit["seed"], idx, res)


def replay(rep: dict, res: UnitResult) -> None:
    if rep.get("family") == "count-resub":
        count_resubscription_case(rep["seed"], rep["idx"], res)
        return
    run_case(rep["seed"], rep["idx"], res)
