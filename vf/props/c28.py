"""C28 Virtual time runs actions in due order on a monotone clock (lock-step differential against a sorted-list model)."""
from __future__ import annotations

import bisect
import datetime as _dt
from fractions import Fraction
from typing import Any

from reactivex.scheduler import HistoricalScheduler, VirtualTimeScheduler
from reactivex.testing import TestScheduler

from ..common import UnitResult, case_rng, chunks

ID = "C28"
LEVEL = "exploration"
RULE = ("seeded random PROGRAMS: a tree of 2..45 actions; an action, when run, logs (id, clock) and executes its ops "
        "(schedule_absolute at clock+delta with delta<0/=0/>0 or at a fixed tick, schedule_relative (also 0 and negative), "
        "schedule(), cancel(any id), stop()); a driver of 2..9 steps interleaves the same ops with advance_to, advance_by, "
        "sleep (each also backwards), start, stop and a final start; time arguments are given as float/int seconds, "
        "timedelta or aware datetime (UTC and other zones); 3 configurations (VirtualTimeScheduler, TestScheduler, "
        "HistoricalScheduler) x several tick sizes (1 us .. 1 day) x initial clocks. Every invocation is compared in "
        "lock step with a model that keeps the pending items in a list sorted by (due, insertion#) in integer "
        "microseconds. non-trivial = at least 2 actions ran; distinct = digest of (configuration, program)")
ASSUMPTIONS = ["same-instant batches stay below the implementation's documented spin threshold of 100 (C29 covers larger ones)",
               "TestScheduler.start() additionally schedules its documented create/subscribe/dispose actions at 100/200/1000; "
               "the model carries them as anonymous items",
               "advance_to/advance_by with a target equal to the current clock: the repository's own test-suite pins "
               "'runs nothing', the statement reads 'runs what is due'; both are accepted and counted",
               "due times are microsecond-aligned (the virtual clock's resolution)"]
CASES = {"quick": 3000, "thorough": 300000}
REQUIRED = {
    "actions_run": {"quick": 20000, "thorough": 2000000},
    "ties_fifo_decided": {"quick": 3000, "thorough": 300000},
    "past_due_runs": {"quick": 1500, "thorough": 150000},
    "cancels_of_pending": {"quick": 800, "thorough": 80000},
    "stops_inside_action": {"quick": 50, "thorough": 5000},
    "advance_runs": {"quick": 800, "thorough": 80000},
    "sleeps": {"quick": 300, "thorough": 30000},
    "backwards_attempts": {"quick": 150, "thorough": 15000},
    "set:configs": 3,
    "set:argforms": 7,
}

UTC = _dt.timezone.utc
E0 = _dt.datetime(1970, 1, 1, tzinfo=UTC)
M = 10 ** 6
ZONES = [_dt.timezone(_dt.timedelta(hours=5, minutes=30)), _dt.timezone(_dt.timedelta(hours=-8)), _dt.timezone(_dt.timedelta(hours=13))]
TEST_EXTRAS = [100 * M, 200 * M, 1000 * M]      # TestScheduler.start(): created / subscribed / disposed


class _Abort(Exception):
    """unwinds a case after its first violation"""


def f_of_us(k: int) -> float:
    return float(Fraction(k, M))


def us_of_dt(d: _dt.datetime) -> int:
    td = d - E0
    return (td.days * 86400 + td.seconds) * M + td.microseconds


def units(tier: str, seed: int) -> list[dict]:
    return [{"lo": lo, "hi": hi, "seed": seed} for lo, hi in chunks(CASES[tier], 16 if tier == "quick" else 64)]


# ------------------------------------------------------------------------------------------- generation

def gen_config(r: Any, idx: int) -> dict:
    cls = ["VTS", "Test", "Hist"][idx % 3]
    if cls == "VTS":
        unit = r.choice([M, M, 500000, 1000, 1, 250000, 3])
        init = r.choice([None, None, 0, 5 * M, 1000 * M + 500000, -3 * M, 1577836800 * M])
    elif cls == "Test":
        unit = r.choice([M, M, 10 * M, 25 * M, 500000, 1000, 1])
        init = None
    else:
        unit = r.choice([M, M, 1000, 1, 86400 * M, 500000, 60 * M])
        init = r.choice([None, 1577836800 * M, 1577836800 * M + 123456, 86400 * M * 365, ("tz", 1600000000 * M)])
    pref = "dt" if cls == "Hist" else "num"
    return {"cls": cls, "unit": unit, "init": init, "pref": pref, "mix": r.choice([0.0, 0.15, 0.5])}


def gen_program(r: Any, cfg: dict) -> dict:
    n_max = r.choice([3, 6, 10, 16, 24, 32, 45])
    actions: dict[int, list] = {}
    counter = [0]

    def absform() -> str:
        other = r.random() < cfg["mix"]
        num = (cfg["pref"] == "num") != other
        return r.choice(["float", "float", "int"]) if num else r.choice(["datetime_utc", "datetime_utc", "datetime_tz"])

    def relform() -> str:
        other = r.random() < cfg["mix"]
        num = (cfg["pref"] == "num") != other
        return r.choice(["float", "float", "int"]) if num else "timedelta"

    def sched_op(depth: int) -> tuple:
        kind = r.choice(["abs", "abs", "abs", "rel", "rel", "now", "absfix"])
        child = new_action(depth)
        if kind == "abs":
            return ("abs", r.choice([-3, -2, -1, 0, 0, 0, 1, 1, 2, 3, 5, 8]), child, absform())
        if kind == "absfix":
            return ("absfix", r.randint(0, 9), child, absform())
        if kind == "rel":
            return ("rel", r.choice([0, 0, 1, 1, 1, 2, 3, 5, -1, -2]), child, relform())
        return ("now", child)

    def new_action(depth: int) -> int:
        i = counter[0]
        counter[0] += 1
        actions[i] = []
        ops: list = []
        if depth < 5:
            for _ in range(r.choice([0, 0, 1, 1, 2, 2, 3, 4])):
                if counter[0] >= n_max:
                    break
                ops.append(sched_op(depth + 1))
        if r.random() < 0.3:
            ops.insert(r.randint(0, len(ops)), ("cancel", r.randrange(n_max)))
        if r.random() < 0.1:
            ops.insert(r.randint(0, len(ops)), ("cancel", r.randrange(n_max)))
        if r.random() < 0.04:
            ops.insert(r.randint(0, len(ops)), ("stop",))
        actions[i] = ops
        return i

    driver: list = []
    for _ in range(r.randint(2, 9)):
        c = r.random()
        if c < 0.45 and counter[0] < n_max:
            driver.append(sched_op(0))
        elif c < 0.55:
            driver.append(("cancel", r.randrange(n_max)))
        elif c < 0.70:
            driver.append(("advance_to", r.choice([-2, -1, 0, 0, 1, 1, 2, 3, 4, 6, 10]), absform()))
        elif c < 0.80:
            driver.append(("advance_by", r.choice([-1, 0, 0, 1, 1, 2, 3, 5, 8]), relform()))
        elif c < 0.88:
            driver.append(("sleep", r.choice([-1, 0, 1, 1, 2, 4, 7]), relform()))
        elif c < 0.97:
            driver.append(("start",))
        else:
            driver.append(("stop",))
    if counter[0] == 0:
        driver.insert(0, sched_op(0))
    driver.append(("drain",))      # start() until nothing is pending (a stop() inside a run leaves work; start must resume it)
    return {"actions": {str(k): v for k, v in actions.items()}, "driver": driver}


# ------------------------------------------------------------------------------------------- model

class Model:
    """pending items in a list kept sorted by (due, insertion#); integer microseconds"""

    def __init__(self, clock: int) -> None:
        self.clock = clock
        self.pending: list[tuple[int, int, Any]] = []
        self.ins = 0
        self.enabled = False

    def schedule(self, ident: Any, due: int) -> None:
        bisect.insort(self.pending, (due, self.ins, ident))
        self.ins += 1

    def cancel(self, ident: Any) -> bool:
        for i, it in enumerate(self.pending):
            if it[2] == ident:
                del self.pending[i]
                return True
        return False

    def find(self, ident: Any) -> tuple | None:
        for it in self.pending:
            if it[2] == ident:
                return it
        return None


# ------------------------------------------------------------------------------------------- lock-step runner

class Runner:
    def __init__(self, cfg: dict, prog: dict, res: UnitResult, rep: dict) -> None:
        self.cfg, self.prog, self.res, self.rep = cfg, prog, res, rep
        init = cfg["init"]
        cls = cfg["cls"]
        if cls == "VTS":
            self.s: Any = VirtualTimeScheduler() if init is None else VirtualTimeScheduler(f_of_us(init) if init else init)
            start = init or 0
        elif cls == "Test":
            self.s = TestScheduler()
            start = 0
        else:
            if init is None:
                self.s = HistoricalScheduler()
                start = 0
            elif isinstance(init, tuple):
                start = init[1]
                self.s = HistoricalScheduler((E0 + _dt.timedelta(microseconds=start)).astimezone(ZONES[0]))
            else:
                start = init
                self.s = HistoricalScheduler(E0 + _dt.timedelta(microseconds=start))
        self.origin = start
        self.m = Model(start)
        self.handles: dict[int, Any] = {}
        self.mode: tuple | None = None
        self.invoked_in_call = 0
        self.log: list = []
        self.ran: dict[int, int] = {}
        self.anon = 0
        self.trace: list = []

    # ---- helpers
    def fail(self, mech: str, why: str, **info: Any) -> None:
        detail = {"why": why, "config": self.cfg, "program": self.prog, "log_(id,clock_us)": self.log[-12:],
                  "steps_done": self.trace[-8:], "model_clock_us": self.m.clock,
                  "model_pending_(due,ins,id)": [list(p) for p in self.m.pending[:8]]}
        detail.update({k: repr(v) for k, v in info.items()})
        self.res.violation("C28:" + mech, detail, self.rep)
        raise _Abort()

    def clock_us(self) -> int:
        c = self.s.clock
        if isinstance(c, _dt.datetime):
            return us_of_dt(c)
        return round(Fraction(c) * M)

    def clock_is(self, k: int) -> bool:
        c = self.s.clock
        if isinstance(c, _dt.datetime):
            return c.tzinfo is not None and us_of_dt(c) == k
        return c == f_of_us(k)

    def absarg(self, k: int, form: str) -> Any:
        self.res.note("argforms", "abs:" + form)
        if form == "int" and k % M == 0:
            return k // M
        if form in ("float", "int"):
            return f_of_us(k)
        d = E0 + _dt.timedelta(microseconds=k)
        if form == "datetime_tz":
            return d.astimezone(ZONES[k % len(ZONES)])
        return d

    def relarg(self, k: int, form: str) -> Any:
        self.res.note("argforms", "rel:" + form)
        if form == "int" and k % M == 0:
            return k // M
        if form in ("float", "int"):
            return f_of_us(k)
        return _dt.timedelta(microseconds=k)

    def action_fn(self, ident: int) -> Any:
        def act(scheduler: Any, state: Any = None) -> None:
            self.on_invoke(ident)
        return act

    # ---- ops shared by actions and the driver
    def do_op(self, op: tuple, inside: bool) -> None:
        kind = op[0]
        unit = self.cfg["unit"]
        if kind in ("abs", "absfix"):
            due = (self.m.clock + op[1] * unit) if kind == "abs" else (self.origin + op[1] * unit)
            ident = op[2]
            self.handles[ident] = self.s.schedule_absolute(self.absarg(due, op[3]), self.action_fn(ident))
            self.m.schedule(ident, due)
            self.res.count("scheduled_past" if due < self.m.clock else ("scheduled_present" if due == self.m.clock else "scheduled_future"))
        elif kind == "rel":
            d = op[1] * unit
            ident = op[2]
            self.handles[ident] = self.s.schedule_relative(self.relarg(d, op[3]), self.action_fn(ident))
            self.m.schedule(ident, self.m.clock + d)
            self.res.count("scheduled_past" if d < 0 else ("scheduled_present" if d == 0 else "scheduled_future"))
        elif kind == "now":
            ident = op[1]
            self.handles[ident] = self.s.schedule(self.action_fn(ident))
            self.m.schedule(ident, self.m.clock)
            self.res.count("scheduled_present")
        elif kind == "cancel":
            h = self.handles.get(op[1])
            if h is not None:
                h.dispose()
                if self.m.cancel(op[1]):
                    self.res.count("cancels_of_pending")
                    if inside:
                        self.res.count("cancels_from_inside_an_action")
                else:
                    self.res.count("cancels_of_finished")
        elif kind == "stop":
            self.s.stop()
            if inside:
                self.m.enabled = False
                self.res.count("stops_inside_action")
            else:
                self.res.count("stops_while_idle")
        else:
            raise KeyError(kind)

    # ---- the monitor
    def skip_anon(self, limit: int | None) -> None:
        """anonymous items (TestScheduler.start's own actions) are not observable; they only move the clock"""
        while self.m.pending and isinstance(self.m.pending[0][2], str):
            due = self.m.pending[0][0]
            if limit is not None and due > limit:
                break
            self.m.pending.pop(0)
            self.m.clock = max(self.m.clock, due)

    def on_invoke(self, ident: int) -> None:
        m = self.m
        obs = self.clock_us()
        self.log.append((ident, obs))
        if self.mode is None:
            self.fail("ran-outside-a-run", "action %d was invoked by a call that must not run anything" % ident, step=self.trace[-1:])
        if not m.enabled:
            self.fail("ran-after-stop", "action %d was invoked after stop() in the same run" % ident)
        limit = self.mode[1]
        mine = m.find(ident)
        if mine is None:
            self.fail("cancelled-or-finished-ran", "action %d ran although it is not pending (cancelled, or ran before: %r)"
                      % (ident, self.ran.get(ident, 0)))
        # anonymous items that sort before this action have run unobserved
        while isinstance(m.pending[0][2], str) and m.pending[0][:2] < mine[:2]:
            it = m.pending.pop(0)
            m.clock = max(m.clock, it[0])
        head = m.pending[0]
        if limit is not None and mine[0] > limit:
            self.fail("advance:ran-beyond-target", "action %d due %d ran during an advance to %d" % (ident, mine[0], limit))
        if head[2] != ident:
            if head[0] == mine[0]:
                self.fail("fifo", "equal due times: action %d (insertion #%d) ran before action %r (insertion #%d)"
                          % (ident, mine[1], head[2], head[1]), due=head[0])
            self.fail("due-order", "action %d due %d ran while action %r due %d is pending" % (ident, mine[0], head[2], head[0]))
        if len(m.pending) > 1 and m.pending[1][0] == head[0] and not isinstance(m.pending[1][2], str):
            self.res.count("ties_fifo_decided")
        before = m.clock
        due = head[0]
        if obs < before:
            self.fail("clock-backwards", "clock went from %d to %d (action %d due %d)" % (before, obs, ident, due))
        if due > before:
            if not self.clock_is(due):
                self.fail("clock-at-invocation", "action %d due %d (later than the clock %d) ran at clock %r" % (ident, due, before, self.s.clock))
        else:
            self.res.count("past_due_runs" if due < before else "due_now_runs")
            if obs != before:
                self.res.count("clock_moved_forward_for_a_past_due_action")
        m.clock = obs
        m.pending.pop(0)
        self.ran[ident] = self.ran.get(ident, 0) + 1
        self.invoked_in_call += 1
        self.res.count("actions_run")
        for op in self.prog["actions"][str(ident)]:
            self.do_op(op, True)

    # ---- driver steps
    def run_call(self, mode: tuple, call: Any) -> None:
        self.mode = mode
        self.m.enabled = True
        self.invoked_in_call = 0
        try:
            call()
        finally:
            self.mode = None

    def due_pending(self, limit: int | None) -> list:
        return [p for p in self.m.pending if limit is None or p[0] <= limit]

    def step(self, op: tuple) -> None:
        m = self.m
        kind = op[0]
        unit = self.cfg["unit"]
        self.trace.append(list(op))
        if kind == "start":
            if self.cfg["cls"] == "Test":
                for t in TEST_EXTRAS:
                    m.schedule("anon%d" % self.anon, t)
                    self.anon += 1
            self.res.count("starts")
            self.run_call(("start", None), self.s.start)
            if m.enabled:
                self.skip_anon(None)
                if m.pending:
                    self.fail("start:not-drained", "start() returned without a stop() although actions are pending")
            else:
                self.res.count("runs_ended_by_stop")
            m.enabled = False
            now = self.clock_us()
            if now < m.clock:
                self.fail("clock-backwards", "clock after start() is %d, it was %d at the last action" % (now, m.clock))
            if now > m.clock:
                self.res.count("clock_moved_forward_after_run")
            m.clock = now
            return
        if kind in ("advance_to", "advance_by"):
            delta = op[1] * unit
            target = m.clock + delta
            self.res.note("driver_calls", kind)
            if kind == "advance_to":
                arg = self.absarg(target, op[2])
                call = lambda: self.s.advance_to(arg)   # noqa: E731
            else:
                arg = self.relarg(delta, op[2])
                call = lambda: self.s.advance_by(arg)   # noqa: E731
            if delta < 0:
                self.backwards(kind, call, arg)
                return
            had_due = [p for p in self.due_pending(target) if not isinstance(p[2], str)]
            self.run_call(("advance", target), call)
            stopped = not m.enabled
            m.enabled = False
            if delta == 0 and self.invoked_in_call == 0 and not stopped:
                # target == clock: open case, see ASSUMPTIONS
                self.res.count("advance_zero_noop_with_due_pending" if had_due else "advance_zero_nothing_due")
            elif not stopped:
                self.skip_anon(target)
                left = self.due_pending(target)
                if left:
                    self.fail("advance:due-not-run", "%s to %d returned, actions due at or before the target were not run: %r"
                              % (kind, target, left[:5]), arg=arg)
                if delta == 0:
                    self.res.count("advance_zero_ran_due")
            if had_due and self.invoked_in_call:
                self.res.count("advance_runs")
            if not stopped:
                if not self.clock_is(target):
                    self.fail("advance:clock-not-at-target", "%s: clock is %r, target %d us" % (kind, self.s.clock, target), arg=arg)
                m.clock = target
            else:
                self.res.count("runs_ended_by_stop")
                now = self.clock_us()
                if now < m.clock or now > target:
                    self.fail("advance:clock-not-at-target", "%s stopped by stop(): clock %d outside [%d, %d]" % (kind, now, m.clock, target))
                m.clock = now
            return
        if kind == "sleep":
            delta = op[1] * unit
            arg = self.relarg(delta, op[2])
            call = lambda: self.s.sleep(arg)            # noqa: E731
            if delta < 0:
                self.backwards(kind, call, arg)
                return
            self.res.count("sleeps")
            if any(p[0] <= m.clock + delta for p in m.pending):
                self.res.count("sleeps_over_due_actions")
            self.mode = None
            call()                                       # an invocation in here is reported by on_invoke
            if not self.clock_is(m.clock + delta):
                self.fail("sleep:clock", "sleep(%r): clock is %r, expected %d us" % (arg, self.s.clock, m.clock + delta))
            m.clock += delta
            return
        self.do_op(op, False)

    def backwards(self, kind: str, call: Any, arg: Any) -> None:
        m = self.m
        self.res.count("backwards_attempts")
        before_len = len(self.log)
        self.mode = None
        try:
            call()
            self.res.count("backwards_ignored_silently")
        except _Abort:
            raise
        except Exception:
            self.res.count("backwards_raised")
        if len(self.log) != before_len:
            self.fail("backwards-ran-actions", "%s(%r) into the past ran actions" % (kind, arg))
        if not self.clock_is(m.clock):
            self.fail("clock-backwards", "%s(%r) into the past: clock is %r, it was %d us" % (kind, arg, self.s.clock, m.clock))
        if getattr(self.s, "_is_enabled", False):
            self.fail("backwards-left-enabled", "%s(%r) into the past left the scheduler running" % (kind, arg))

    def run(self) -> None:
        for op in self.prog["driver"]:
            if op[0] != "drain":
                self.step(op)
                continue
            budget = 2 + sum(1 for ops in self.prog["actions"].values() for o in ops if o[0] == "stop")
            self.step(("start",))
            while self.m.pending and budget > 0:
                budget -= 1
                self.res.count("starts_resuming_after_stop")
                self.step(("start",))
        # everything scheduled and not cancelled ran exactly once
        twice = {k: v for k, v in self.ran.items() if v != 1}
        if twice:
            self.fail("ran-twice", "actions ran more than once: %r" % twice)
        if self.m.pending:
            self.fail("start:not-drained", "repeated final start() calls left actions pending")


def run_case(seed: int, idx: int, res: UnitResult) -> None:
    r = case_rng(seed, ID, idx)
    cfg = gen_config(r, idx)
    prog = gen_program(r, cfg)
    rep = {"seed": seed, "idx": idx}
    runner = Runner(cfg, prog, res, rep)
    res.note("configs", cfg["cls"])
    res.note("units_us", cfg["unit"])
    try:
        runner.run()
    except _Abort:
        pass
    except Exception as e:          # noqa: BLE001 - an exception escaping the scheduler API is a finding to triage
        import traceback
        res.violation("C28:exception", {"why": "exception escaped: %r" % (e,), "trace": traceback.format_exc()[-1200:],
                                        "config": cfg, "program": prog, "steps_done": runner.trace[-8:]}, rep)
    nran = len(runner.log)
    sample = None
    if res.evaluations < 3:
        sample = {"config": cfg, "driver": prog["driver"], "actions": prog["actions"], "log_(id,clock_us)": runner.log[:30]}
    res.case(key={"cfg": cfg, "prog": prog}, nontrivial=nran >= 2, sample=sample)
    res.count("max_actions_in_a_program_%s" % ("le45" if len(prog["actions"]) <= 45 else "gt45"))


def run_unit(unit: dict, res: UnitResult) -> None:
    for idx in range(unit["lo"], unit["hi"]):
        run_case(unit["seed"], idx, res)


def replay(rep: dict, res: UnitResult) -> None:
    run_case(rep["seed"], rep["idx"], res)
