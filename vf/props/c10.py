"""C10 Sequential composition runs one source at a time, in order (virtual time, event model over the trace).

The model walks the ordered event log (sub / emit / unsub of every probe source) and decides, event by event,
what the statement allows: which source may be subscribed next, and what the output must be.
A source subscription is *closed* by its own terminal notification (or by an unsubscription, whichever comes
first): "subscribing to the next only after the previous one terminated".  Whether the library has already
disposed the terminated source's subscription handle when it subscribes to the next one is not part of the
statement and is only counted (observation `next_subscribed_before_prev_handle_released`).
"""
from __future__ import annotations

from typing import Any

import reactivex as rx
import reactivex.operators as ops

from ..common import UnitResult, case_rng, chunks, show
from ..vlab import Lab
from ._c1x_common import (SUB_AT, build_source, gen_source, match_exact, new_lab, run_pipeline, show_source,
                          show_timed, show_trace)

ID = "C10"
LEVEL = "exploration"
RULE = ("seeded random cases: operator and call form (factory / operator / iterable or generator argument / handler "
        "function / source factory), 0..4 probe sources (cold, some hot or synchronous) with 0..3 elements ending in "
        "C / E / never (biased towards the kind the operator continues on), counts 0..4 and unbounded counts cut by "
        "take(k), subscription with scheduler=TestScheduler, without a scheduler argument (operators then fall back to "
        "the CurrentThreadScheduler trampoline) or with scheduler=ImmediateScheduler() (their steps run inline, recursively), repeated sources either one probe or a defer() handing out a different probe per attempt; "
        "non-trivial = at least two source subscriptions happened; distinct = digest of (operator, form, parameters, "
        "source timelines)")
ASSUMPTIONS = ["reactivex.testing.TestScheduler is the clock (checked by C28)", "probe sources are harness code (conforming)",
               "reactivex.defer / take are used as case plumbing (checked by C37 / C05)"]
CASES = {"quick": 6000, "thorough": 360000}
UNIT_TIMEOUT = {"quick": 300, "thorough": 3600}
OPS = ["concat", "concat_with_iterable", "for_in", "start_with", "repeat", "retry", "catch", "on_error_resume_next",
       "while_do", "do_while"]
REQUIRED = {"set:ops": len(OPS), "subscriptions_checked": {"quick": 5000, "thorough": 100000},
            "continuations_checked": {"quick": 2000, "thorough": 40000}, "count_exhausted_cases": {"quick": 50, "thorough": 1000},
            "cases_subscribed_with_immediate_scheduler": {"quick": 600, "thorough": 30000}}

CONT = {"concat": "C", "concat_with_iterable": "C", "for_in": "C", "start_with": "C", "repeat": "C", "while_do": "C",
        "do_while": "C", "catch": "E", "retry": "E", "on_error_resume_next": "CE"}


def units(tier: str, seed: int) -> list[dict]:
    return [{"lo": lo, "hi": hi, "seed": seed} for lo, hi in chunks(CASES[tier], 16 if tier == "quick" else 64)]


# ------------------------------------------------------------------------------------------ generation

def _term_for(r: Any, op: str) -> Any:
    cont = CONT[op]
    if r.random() < 0.62:
        return r.choice(cont)
    return r.choice(["C", "E", None])


def gen_case(r: Any, idx: int) -> dict:
    op = OPS[idx % len(OPS)]
    domain = r.choice(["ints", "dups", "falsy"])
    P: dict = {}
    kinds = ("cold", "cold", "cold", "cold", "cold", "hot", "sync")
    srcs: list[dict] = []
    plan: Any = None           # list of names (finite plan) or ("cycle", names, limit) for repeated sources

    def mk(name: str, min_elems: int = 0, kind: Any = None) -> dict:
        s = gen_source(r, name, kind=kind, domain=domain, maxlen=3, term=_term_for(r, op), min_elems=min_elems, kinds=kinds)
        srcs.append(s)
        return s

    if op in ("concat", "concat_with_iterable", "for_in", "catch", "on_error_resume_next"):
        if op == "concat":
            P["form"] = r.choice(["factory", "operator"])
        elif op == "concat_with_iterable":
            P["form"] = r.choice(["list", "generator", "tuple"])
        elif op == "for_in":
            P["form"] = r.choice(["list", "tuple"])
        elif op == "catch":
            P["form"] = r.choice(["factory", "with_iterable", "with_generator", "operator_obs", "operator_fn"])
        else:
            P["form"] = r.choice(["factory", "factory_fn", "operator"])
        if P["form"] in ("operator_obs", "operator_fn") or (op == "on_error_resume_next" and P["form"] == "operator"):
            k = 2
        elif P["form"] == "operator":
            k = r.randint(1, 4)
        elif op == "catch":
            k = r.randint(1, 4)
        else:
            k = r.randint(0, 4)
        ndistinct = k if r.random() < 0.8 else max(1 if k else 0, k - 1)
        for i in range(ndistinct):
            # a probe that appears twice in the list must be re-subscribable: cold or sync
            mk("s%d" % i)
        names = [s["name"] for s in srcs]
        while len(names) < k:
            cand = [s["name"] for s in srcs if s["kind"] != "hot"] or names
            names.insert(r.randint(0, len(names)), r.choice(cand))
        plan = names
        if P["form"] == "factory_fn":
            P["fn_at"] = [i for i in range(k) if r.random() < 0.5]
    elif op == "start_with":
        mk("s0")
        P["args"] = [r.choice([None, 0, "", 5, (1,), False]) for _ in range(r.randint(0, 3))]
        plan = ["s0"]
    else:  # repeat, retry, while_do, do_while : one repeated source
        if op in ("repeat", "retry"):
            P["n"] = r.choice([0, 1, 2, 3, 4, None, None])
            limit = P["n"]
        elif op == "while_do":
            P["k"] = r.choice([0, 1, 2, 3, 4, None])
            limit = P["k"]
        else:
            P["k"] = r.choice([0, 1, 2, 3, None])
            limit = None if P["k"] is None else P["k"] + 1
        unbounded = limit is None
        P["multi"] = r.random() < 0.5
        nprobes = r.randint(2, 4) if P["multi"] else 1
        for i in range(nprobes):
            # an unbounded repetition must make progress in virtual time or in output: >= 1 element per run
            # (re-subscribable kinds only: cold or synchronous)
            mk("s%d" % i, min_elems=1 if unbounded else 0, kind=r.choice(["cold", "cold", "cold", "sync"]))
        plan = ("cycle", [s["name"] for s in srcs], limit)
        if unbounded:
            P["take"] = r.randint(1, 6)
    if "take" not in P and r.random() < 0.12:
        P["take"] = r.randint(1, 4)
    P["scheduler_arg"] = r.random() < 0.7
    # a fifth of the cases: scheduler=ImmediateScheduler() (the operators' own steps run inline, recursively)
    P["immediate"] = r.random() < 0.2
    if P["immediate"]:
        P["scheduler_arg"] = False
    return {"op": op, "P": P, "srcs": srcs, "plan": plan, "domain": domain}


def plan_at(case: dict, i: int) -> str | None:
    plan = case["plan"]
    if isinstance(plan, tuple):
        _, names, limit = plan
        if limit is not None and i >= limit:
            return None
        return names[min(i, len(names) - 1)]
    return plan[i] if i < len(plan) else None


# ------------------------------------------------------------------------------------------ real pipeline

def build(case: dict, lab: Lab, S: dict, info: dict) -> Any:
    """Builds a FRESH observable (C04's build-time iterators are not this property's business)."""
    op, P = case["op"], case["P"]
    plan = case["plan"]
    if isinstance(plan, tuple):
        names = plan[1]
        if P["multi"]:
            attempt = [0]

            def factory(_: Any) -> Any:
                i = attempt[0]
                attempt[0] += 1
                return S[names[min(i, len(names) - 1)]]
            src = rx.defer(factory)
        else:
            src = S[names[0]]
        calls = [0]

        def cond(_: Any) -> bool:
            calls[0] += 1
            info["cond_calls"] = calls[0]
            return P["k"] is None or calls[0] <= P["k"]
        if op == "repeat":
            o = src.pipe(ops.repeat(P["n"])) if P["n"] is not None else src.pipe(ops.repeat())
        elif op == "retry":
            o = src.pipe(ops.retry(P["n"])) if P["n"] is not None else src.pipe(ops.retry())
        elif op == "while_do":
            o = src.pipe(ops.while_do(cond))
        else:
            o = src.pipe(ops.do_while(cond))
    else:
        L = [S[n] for n in plan]
        form = P.get("form")
        if op == "concat":
            o = rx.concat(*L) if form == "factory" else L[0].pipe(ops.concat(*L[1:]))
        elif op == "concat_with_iterable":
            o = rx.concat_with_iterable(L if form == "list" else tuple(L) if form == "tuple" else (x for x in L))
        elif op == "for_in":
            keys = ["k%d" % i for i in range(len(L))]
            table = dict(zip(keys, L))
            o = rx.for_in(keys if form == "list" else tuple(keys), lambda k: table[k])
        elif op == "start_with":
            o = L[0].pipe(ops.start_with(*P["args"]))
        elif op == "catch":
            if form == "factory":
                o = rx.catch(*L)
            elif form == "with_iterable":
                o = rx.catch_with_iterable(L)
            elif form == "with_generator":
                o = rx.catch_with_iterable(x for x in L)
            elif form == "operator_obs":
                o = L[0].pipe(ops.catch(L[1]))
            else:
                def handler(e: Exception, source: Any) -> Any:
                    info["handler_calls"] = info.get("handler_calls", 0) + 1
                    return L[1]
                o = L[0].pipe(ops.catch(handler))
        elif op == "on_error_resume_next":
            if form == "factory":
                o = rx.on_error_resume_next(*L)
            elif form == "factory_fn":
                def wrap(x: Any) -> Any:
                    return lambda exc: x
                o = rx.on_error_resume_next(*[wrap(x) if i in P["fn_at"] else x for i, x in enumerate(L)])
            else:
                o = L[0].pipe(ops.on_error_resume_next(L[1]))
        else:
            raise KeyError(op)
    if "take" in P:
        o = o.pipe(ops.take(P["take"]))
    return o


# ------------------------------------------------------------------------------------------ model / monitor

def monitor(case: dict, lab: Lab, t0: float) -> tuple[list, list, dict]:
    """Returns (expected output, problems, stats). expected may end with (t, 'ANY', None): any single terminal or none."""
    op, P = case["op"], case["P"]
    cont = CONT[op]
    exhaust = "lastE" if op in ("catch", "retry") else "C"
    take_k = P.get("take")
    expected: list = []
    problems: list = []
    st = {"subs": 0, "continuations": 0, "after_cut_subs": 0, "handle_not_released": 0, "exhausted": 0}
    out_open = True
    out_count = 0

    def put(t: float, k: str, v: Any) -> None:
        nonlocal out_open, out_count
        if not out_open:
            return
        expected.append((t, k, v))
        if k == "N":
            out_count += 1
            if take_k is not None and out_count == take_k:
                expected.append((t, "C", None))
                out_open = False
        else:
            out_open = False

    if op == "start_with":
        for a in P["args"]:
            put(t0, "N", a)
    if plan_at(case, 0) is None:
        # nothing to consume: the concatenation of no sources is empty; what catch/retry do with no source is not stated
        if exhaust == "C":
            put(t0, "C", None)
        else:
            expected.append((t0, "ANY", None))
            out_open = False
        st["exhausted"] += 1

    cur: tuple | None = None          # open subscription (name, sid)
    nsub = 0
    may_continue = False              # the previous subscription terminated in the continuing way
    prev_close = "nothing"
    last_closed: tuple | None = None  # (name, sid) closed by its terminal notification, handle maybe not yet disposed
    released: set = set()
    top_disposed = False
    for e in lab.ev:
        kind = e[2]
        if kind == "sub":
            name, sid = e[3], e[4]
            want = plan_at(case, nsub)
            if cur is not None:
                problems.append(("overlap", "%s#%d subscribed at seq %d while %s#%d is still subscribed and has not terminated"
                                 % (name, sid, e[0], cur[0], cur[1])))
            if want is None:
                problems.append(("count", "subscription number %d (%s#%d, seq %d) exceeds what the operator may consume" % (nsub + 1, name, sid, e[0])))
            elif want != name:
                problems.append(("order", "subscription number %d went to %s, the next source in order is %s" % (nsub + 1, name, want)))
            if nsub > 0 and cur is None and not may_continue:
                problems.append(("continue", "%s#%d subscribed at seq %d although its predecessor ended with %s, which this operator "
                                 "does not continue on" % (name, sid, e[0], prev_close)))
            if nsub > 0:
                st["continuations"] += 1
                if last_closed is not None and last_closed not in released:
                    st["handle_not_released"] += 1
            if not out_open:
                st["after_cut_subs"] += 1
            cur = (name, sid)
            nsub += 1
            st["subs"] += 1
            may_continue = False
        elif kind == "emit":
            name, sid, k, v = e[3], e[4], e[5], e[6]
            if (name, sid) != cur:
                continue                      # nothing a conforming source does; ignored
            if k == "N":
                put(e[1], "N", v)
                continue
            cur = None
            last_closed = (name, sid)
            prev_close = "on_completed" if k == "C" else "on_error"
            if k in cont:
                if plan_at(case, nsub) is not None:
                    may_continue = True
                else:
                    st["exhausted"] += 1
                    if exhaust == "C":
                        put(e[1], "C", None)
                    else:
                        put(e[1], "E", v)
            else:
                may_continue = False
                put(e[1], k, v)
        elif kind == "dispose_call" and e[3] == "top":
            top_disposed = True
        elif kind == "unsub":
            released.add((e[3], e[4]))
            if (e[3], e[4]) == cur and out_open and not top_disposed:
                # nobody asked for it: the subscriber is still subscribed, the output has not ended, the source has not terminated
                problems.append(("abandoned", "%s#%d was unsubscribed at seq %d before it terminated, while the output was still open "
                                 "and the subscriber still subscribed: the rest of the concatenation is lost" % (e[3], e[4], e[0])))
            if (e[3], e[4]) == cur:
                cur = None
                may_continue = False
                prev_close = "an unsubscription (no terminal notification)"
    if out_open and may_continue and cur is None:
        problems.append(("stall", "the previous source terminated in the continuing way (%s) but source number %d (%s) was never "
                         "subscribed" % (prev_close, nsub + 1, plan_at(case, nsub))))
    return expected, problems, st


def compare(expected: list, actual: list) -> str | None:
    if expected and expected[-1][1] == "ANY":
        body = expected[:-1]
        if len(actual) > len(body) + 1:
            return "more than one notification after the expected elements"
        if len(actual) == len(body) + 1 and actual[-1][1] == "N":
            return "unexpected element %r" % (actual[-1],)
        return match_exact(body, actual[:len(body)])
    return match_exact(expected, actual)


def describe(case: dict) -> dict:
    plan = case["plan"]
    return {"op": case["op"], "params": show(case["P"]), "plan": list(plan) if isinstance(plan, tuple) else plan,
            "sources": [show_source(s) for s in case["srcs"]]}


def run_case(seed: int, idx: int, res: UnitResult) -> None:
    r = case_rng(seed, ID, idx)
    case = gen_case(r, idx)
    lab = new_lab()
    S = {s["name"]: build_source(lab, s) for s in case["srcs"]}
    info: dict = {}
    top = run_pipeline(lab, lambda: build(case, lab, S, info), with_scheduler=case["P"]["scheduler_arg"], immediate=case["P"].get("immediate", False))
    actual = top.timed()
    expected, problems, st = monitor(case, lab, SUB_AT)
    desc = describe(case)
    res.case(key=desc, nontrivial=st["subs"] >= 2,
             sample={"case": desc, "expected": show_timed(expected), "observed": show_timed(actual), "trace": show_trace(lab, 40)})
    res.note("ops", case["op"])
    res.note("forms", "%s:%s" % (case["op"], case["P"].get("form", "multi" if case["P"].get("multi") else "single")))
    res.count("subscriptions_checked", st["subs"])
    res.count("continuations_checked", st["continuations"])
    res.count("outputs_compared", len(expected))
    if st["exhausted"]:
        res.count("count_exhausted_cases")
    if st["handle_not_released"]:
        res.count("obs:next_subscribed_before_prev_handle_released", st["handle_not_released"])
        res.note("ops_subscribing_inside_terminal_handler", case["op"] + ":" + str(case["P"].get("form", "")))
    if st["after_cut_subs"]:
        res.count("obs:subscriptions_after_output_ended", st["after_cut_subs"])
        res.note("ops_subscribing_after_output_ended", case["op"] + ":" + str(case["P"].get("form", "")))
    if "take" in case["P"]:
        res.count("cases_cut_by_take")
    if case["P"].get("immediate"):
        res.count("cases_subscribed_with_immediate_scheduler")
    elif not case["P"]["scheduler_arg"]:
        res.count("cases_subscribed_without_scheduler_argument")
    if any(s["kind"] == "sync" for s in case["srcs"]):
        res.count("cases_with_sync_source")
    if lab.events("escaped"):
        res.count("obs:exception_escaped_into_a_source")
    why = compare(expected, actual)
    if why is not None:
        problems.append(("output", why))
    if lab.escaped_to_scheduler:
        problems.append(("escaped", "exception escaped to the scheduler: %r" % (lab.escaped_to_scheduler[0],)))
    if getattr(lab, "over_budget", False):
        problems.append(("budget", "more than the action budget of scheduler actions"))
    if problems:
        tag = problems[0][0]
        res.violation("C10:%s:%s" % (case["op"], tag),
                      {"problems": [p[1] for p in problems[:4]], "case": desc, "expected": show_timed(expected),
                       "observed": show_timed(actual), "trace": show_trace(lab)}, {"seed": seed, "idx": idx})


def run_unit(unit: dict, res: UnitResult) -> None:
    for idx in range(unit["lo"], unit["hi"]):
        run_case(unit["seed"], idx, res)


def replay(rep: dict, res: UnitResult) -> None:
    run_case(rep["seed"], rep["idx"], res)
