"""dsched: deterministic cooperative scheduler for real threads with a virtual clock.

One registered thread runs at a time; every context switch is a decision of a Strategy, so a run is a
pure function of its decision list. Yield points: sys.monitoring LINE events in a per-check file set,
every operation on an instrumented threading primitive, explicit `yp()` calls in harness monitors.

Usage (in a child process, BEFORE anything imports reactivex):
    from vf import dsched as D
    D.install(file_prefixes)                  # patches threading during `import reactivex`
    ctl = D.run(scenario, D.RandomStrategy(rng, 0.15))
    ctl.events / ctl.result / ctl.failed / ctl.decisions ...
"""
from __future__ import annotations

import datetime
import gc
import os
import sys
import threading as _T
import time
from collections import Counter
from typing import Any, Callable

R_Thread, R_get_ident, R_Semaphore = _T.Thread, _T.get_ident, _T.Semaphore
UTC = datetime.timezone.utc
CLOCK0 = 1_000_000.0


class Deadlock(Exception):
    pass


class SelfDeadlock(Exception):
    pass


class StepBudget(Exception):
    pass


class Killed(BaseException):
    """raised inside parked threads when a run is torn down"""


# ------------------------------------------------------------------------------ strategies

class Strategy:
    def choose(self, ctl: "Ctl", cands: list[str], current: str | None) -> str:
        raise NotImplementedError


class RandomStrategy(Strategy):
    """continue the running thread with probability 1-p, else uniform among runnable threads"""

    def __init__(self, rng: Any, p: float) -> None:
        self.rng, self.p = rng, p

    def choose(self, ctl: "Ctl", cands: list[str], current: str | None) -> str:
        if current is not None and self.rng.random() > self.p:
            return current
        return self.rng.choice(cands)


class HotspotStrategy(Strategy):
    """like RandomStrategy, but at yield points whose label is in `hot` (e.g. a monitor's explicit
    'in-downstream' point) the running thread is preempted with probability p_hot: the thread is parked
    inside the window of interest while the others run."""

    def __init__(self, rng: Any, p: float, hot: tuple, p_hot: float) -> None:
        self.rng, self.p, self.hot, self.p_hot = rng, p, hot, p_hot

    def choose(self, ctl: "Ctl", cands: list[str], current: str | None) -> str:
        if current is None:
            return self.rng.choice(cands)
        p = self.p_hot if ctl.cur_where in self.hot else self.p
        if self.rng.random() > p:
            return current
        others = [n for n in cands if n != current]
        return self.rng.choice(others) if others else current


class StallStrategy(RandomStrategy):
    """RandomStrategy that additionally, at LINE yield points of the files named in `files` (basename match), lets the
    running thread sleep for a virtual duration with probability p_stall (at most max_stalls times per run): models a
    thread that is descheduled while time passes, which pure reordering on a frozen clock cannot produce."""

    def __init__(self, rng: Any, p: float, files: tuple, durations: tuple, est: int = 40, max_stalls: int = 2) -> None:
        super().__init__(rng, p)
        self.files, self.durations = files, durations
        # stall positions are drawn uniformly over the eligible yield points of a run (est = how many the previous run had),
        # so that late points (the k-th tick) are as likely as the first lines of schedule_periodic
        # two runs out of three only stall threads the library created (loop thread, timers, pool workers): the scenario's own
        # threads (driver, K*) mostly execute set-up code
        self.lib_only = rng.random() < 0.67
        if isinstance(est, dict):
            est = est["lib" if self.lib_only else "all"]
        self.targets = {rng.randrange(max(1, est)) for _ in range(rng.randint(1, max_stalls))}
        self.n = 0

    def stall(self, ctl: "Ctl", name: str, where: Any) -> float:
        if not isinstance(where, tuple) or where[0] not in self.files:
            return 0.0
        if self.lib_only and (name == "driver" or name.startswith("K")):
            return 0.0
        self.n += 1
        if (self.n - 1) in self.targets:
            return self.rng.choice(self.durations)
        return 0.0


class PCTStrategy(Strategy):
    """PCT: random priorities, d-1 priority change points among the first `est` decisions"""

    def __init__(self, rng: Any, depth: int, est: int) -> None:
        self.rng = rng
        self.prio: dict[str, float] = {}
        self.change = set(rng.randrange(max(1, est)) for _ in range(max(0, depth - 1)))
        self.low = 0.5

    def choose(self, ctl: "Ctl", cands: list[str], current: str | None) -> str:
        for n in cands:
            if n not in self.prio:
                self.prio[n] = 1.0 + self.rng.random()
        if current is not None and len(ctl.decisions) in self.change:
            self.low -= 0.01
            self.prio[current] = self.low
        return max(cands, key=lambda n: self.prio[n])


class ForcedStrategy(Strategy):
    """default = keep running the current thread (else the lowest name); `forced` overrides decisions by index.
    Records the alternatives of every decision for bounded-preemption DFS."""

    def __init__(self, forced: dict[int, str]) -> None:
        self.forced = forced
        self.alts: list[tuple[list[str], bool]] = []   # per decision: (other candidates, preemptive?)
        self.mismatch = False

    def choose(self, ctl: "Ctl", cands: list[str], current: str | None) -> str:
        idx = len(self.alts)
        default = current if current is not None else cands[0]
        f = self.forced.get(idx)
        if f is not None and f not in cands:
            self.mismatch = True
            f = None
        pick = f if f is not None else default
        self.alts.append(([n for n in cands if n != default], current is not None))
        return pick


class ReplayStrategy(Strategy):
    def __init__(self, decisions: list[str]) -> None:
        self.decisions = decisions
        self.mismatch = False

    def stall(self, ctl: "Ctl", name: str, where: Any) -> float:
        i = len(ctl.decisions)
        if i < len(self.decisions) and self.decisions[i].startswith("~"):
            dt, th, site = self.decisions[i][1:].split("@")
            if th == name and site == "%s:%d#%d" % (where[0], where[1], ctl.where_count.get((name, where), 0)):
                return float(dt)
        return 0.0

    def choose(self, ctl: "Ctl", cands: list[str], current: str | None) -> str:
        i = len(ctl.decisions)
        if i < len(self.decisions) and self.decisions[i] in cands:
            return self.decisions[i]
        if i < len(self.decisions):
            self.mismatch = True
        return current if current is not None else cands[0]


# ------------------------------------------------------------------------------ controller

class Rec:
    __slots__ = ("name", "sem", "wait", "deadline", "done", "timed_out", "what", "real")

    def __init__(self, name: str) -> None:
        self.name = name
        self.sem = R_Semaphore(0)
        self.wait: Callable[[], bool] | None = None
        self.deadline: float | None = None
        self.done = False
        self.timed_out = False
        self.what = ""
        self.real: Any = None


class Ctl:
    def __init__(self, strategy: Strategy, max_steps: int = 400000) -> None:
        self.strategy = strategy
        self.th: dict[int, Rec] = {}
        self.by_name: dict[str, Rec] = {}
        self.clock = CLOCK0
        self.active = False
        self.killing = False
        self.steps = 0
        self.max_steps = max_steps
        self.decisions: list[str] = []
        self.preemptions = 0
        self.switches = 0
        self.switch_sites: Counter = Counter()
        self.events: list[tuple] = []
        self.failed: str | None = None
        self.result: Any = None
        self.nthreads = 0
        self.thread_exc: list[tuple] = []
        self.clock_advances = 0
        self.quiescence_waiter: Rec | None = None
        self.cur_where: Any = None
        self.stalls = 0
        self.stall_sites: list = []
        self.where_count: dict = {}
        self.watch_lines: Any = ()          # (basename, line) yield points whose visits a scenario wants recorded, per thread
        self.watch_log: list = []           # (len(events), thread, "visit"|"stall"|"wait", where) in execution order
        self.running: Rec | None = None      # the thread that holds the baton

    # ---- thread records
    def reg(self, name: str) -> Rec:
        r = Rec(name)
        self.th[R_get_ident()] = r
        self.by_name[name] = r
        return r

    def me(self) -> Rec | None:
        return self.th.get(R_get_ident())

    def log(self, *ev: Any) -> int:
        r = self.me()
        self.events.append((len(self.events), self.clock, r.name if r else "?") + ev)
        return len(self.events) - 1

    def Thread(self, target: Any, args: tuple = (), name: str = "T") -> "VThread":
        """(the free-running tier's FreeCtl.Thread hands out real threads through the same call)"""
        return VThread(target=target, args=args, name=name)

    def now(self) -> datetime.datetime:
        return datetime.datetime.fromtimestamp(self.clock, tz=UTC)

    # ---- core
    def _runnable(self) -> list[Rec]:
        out = []
        for r in self.th.values():
            if r.done:
                continue
            if r.wait is None:
                out.append(r)
            elif r is not self.quiescence_waiter and r.wait():
                r.wait = None
                r.deadline = None
                out.append(r)
        return out

    def _candidates(self) -> list[Rec]:
        cands = self._runnable()
        if cands:
            return cands
        # nothing runnable: advance the virtual clock to the earliest deadline
        dl = [(r.deadline, r.name, r) for r in self.th.values() if not r.done and r.wait is not None and r.deadline is not None]
        if dl:
            d = min(dl)[0]
            if d > self.clock:
                self.clock = d
                self.clock_advances += 1
            for dd, _, r in sorted(dl, key=lambda x: (x[0], x[1])):
                if dd <= self.clock:
                    r.wait = None
                    r.deadline = None
                    r.timed_out = True
            return self._runnable()
        # quiescence: grant it to a driver that waits for it
        q = self.quiescence_waiter
        if q is not None and not q.done:
            self.quiescence_waiter = None
            q.wait = None
            return [q]
        return []

    def _decide(self, me: Rec, allow_me: bool, where: Any) -> Rec | None:
        cands = self._candidates()
        if not cands:
            return None
        names = sorted(r.name for r in cands)
        current = me.name if (allow_me and me.name in names) else None
        if len(names) == 1:
            pick = names[0]
        else:
            self.cur_where = where
            pick = self.strategy.choose(self, names, current)
            self.decisions.append(pick)
        if current is not None and pick != current:
            self.preemptions += 1
            if where is not None:
                self.switch_sites[where] += 1
        return self.by_name[pick]

    def _switch_to(self, nxt: Rec, me: Rec) -> None:
        if nxt is me:
            return
        self.switches += 1
        self.running = nxt
        nxt.sem.release()
        me.sem.acquire()
        if self.killing:
            raise Killed()

    def yp(self, where: Any = None) -> None:
        """preemption point"""
        if not self.active or self.killing:
            return
        r = self.me()
        if r is None or r is not self.running:
            # not the baton holder (e.g. a finalizer run by the garbage collector in a thread that is still parked)
            return
        self.steps += 1
        if self.steps > self.max_steps:
            self.failed = self.failed or "step budget exceeded"
            raise StepBudget()
        stall = getattr(self.strategy, "stall", None)
        if stall is not None and isinstance(where, tuple):
            key = (r.name, where)
            self.where_count[key] = self.where_count.get(key, 0) + 1
            dt = stall(self, r.name, where)
            if dt:
                # the OS may deschedule a thread for an arbitrary stretch of time: let virtual time pass here
                self.stalls += 1
                self.stall_sites.append(where)
                self.watch_log.append((len(self.events), r.name, "stall", where))
                # recorded like a scheduling decision so that replays repeat it: ~<dt>@<thread>@<file>:<line>#<k-th visit>
                self.decisions.append("~%r@%s@%s:%d#%d" % (dt, r.name, where[0], where[1], self.where_count[key]))
                self.block(lambda: False, dt, "stall")
                if where in self.watch_lines:
                    self.watch_log.append((len(self.events), r.name, "visit", where))
                return
        if self.watch_lines and where in self.watch_lines:
            self.watch_log.append((len(self.events), r.name, "visit", where))
        nxt = self._decide(r, True, where)
        if nxt is not None:
            self._switch_to(nxt, r)

    def block(self, pred: Callable[[], bool], timeout: float | None = None, what: str = "") -> bool:
        """cooperative wait; returns False on (virtual) timeout"""
        if self.killing:
            raise Killed()
        r = self.me()
        if not self.active or r is None or r is not self.running:
            if pred():
                return True
            raise RuntimeError("uncontrolled blocking wait (%s) outside a dsched run" % what)
        if pred():
            return True
        # blocking waits count against the step budget too: a loop that polls with zero-timeout waits on a clock that cannot
        # advance while it is runnable would otherwise spin without ever reaching a yield point
        self.steps += 1
        if self.steps > self.max_steps:
            self.failed = self.failed or "step budget exceeded"
            raise StepBudget()
        r.wait, r.what, r.timed_out = pred, what, False
        if self.watch_lines and what != "stall":
            self.watch_log.append((len(self.events), r.name, "wait", what))
        r.deadline = None if timeout is None else self.clock + max(0.0, timeout)
        nxt = self._decide(r, False, None)
        if nxt is None:
            r.wait = None
            self.failed = self.failed or ("deadlock: %s blocked on %s; %s" % (r.name, what, self.describe()))
            raise Deadlock(self.failed)
        self._switch_to(nxt, r)
        to = r.timed_out
        r.timed_out = False
        return (not to) or pred()

    def sleep(self, dt: float) -> None:
        """let virtual time pass (everything else runs until blocked first)"""
        self.block(lambda: False, dt, "sleep")

    def wait_quiescent(self) -> None:
        """block until no other thread is runnable and no deadline is pending"""
        r = self.me()
        assert r is not None
        self.quiescence_waiter = r
        r.wait, r.what, r.deadline, r.timed_out = (lambda: False), "quiescence", None, False
        nxt = self._decide(r, False, None)
        if nxt is None:
            r.wait = None
            self.failed = self.failed or "deadlock while waiting for quiescence"
            raise Deadlock(self.failed)
        self._switch_to(nxt, r)

    def exit_thread(self) -> None:
        r = self.me()
        assert r is not None
        r.done = True
        if self.killing or not self.active:
            return
        nxt = self._decide(r, False, None)
        if nxt is not None:
            self.switches += 1
            self.running = nxt
            nxt.sem.release()
        else:
            live = [x for x in self.th.values() if not x.done]
            if live:
                self.failed = self.failed or ("deadlock at thread exit; %s" % self.describe())
                self._abort()

    def _abort(self) -> None:
        """wake the driver with Killed so the run ends (used on deadlock detected at a thread exit)"""
        self.killing = True
        for x in self.th.values():
            if not x.done:
                x.sem.release()

    def describe(self) -> str:
        return "; ".join("%s:%s" % (r.name, "done" if r.done else ("blocked(%s%s)" % (r.what, "" if r.deadline is None else "@%.3f" % r.deadline) if r.wait else "runnable"))
                         for r in self.th.values())

    def new_thread_name(self, hint: str | None) -> str:
        self.nthreads += 1
        base = hint or "T"
        name = "%s%d" % (base, self.nthreads)
        return name


CTL: Ctl | None = None


def ctl() -> Ctl:
    assert CTL is not None
    return CTL


# ------------------------------------------------------------------------------ primitives

def _c() -> Ctl | None:
    c = CTL
    if c is None or not c.active or c.killing:
        return None
    return c


class VLock:
    def __init__(self) -> None:
        self.owner: int | None = None

    def acquire(self, blocking: bool = True, timeout: float = -1) -> bool:
        c = _c()
        me = R_get_ident()
        if c is None:
            self.owner = me
            return True
        c.yp("lock.acquire")
        if self.owner == me:
            c.failed = c.failed or "self-deadlock: non-reentrant Lock re-acquired by its owner"
            raise SelfDeadlock(c.failed)
        if self.owner is not None:
            if not blocking:
                return False
            end = None if timeout in (-1, None) else c.clock + timeout
            # re-test after every wake-up: another thread may have taken the lock before this one was scheduled
            while self.owner is not None:
                rem = None if end is None else end - c.clock
                if rem is not None and rem <= 0:
                    return False
                c.block(lambda: self.owner is None, rem, "lock")
        self.owner = me
        return True

    def release(self) -> None:
        self.owner = None

    def locked(self) -> bool:
        return self.owner is not None

    __enter__ = acquire

    def __exit__(self, *a: Any) -> None:
        self.release()


class VRLock:
    def __init__(self) -> None:
        self.owner: int | None = None
        self.count = 0

    def acquire(self, blocking: bool = True, timeout: float = -1) -> bool:
        me = R_get_ident()
        if self.owner == me:
            self.count += 1
            return True
        c = _c()
        if c is None:
            self.owner, self.count = me, 1
            return True
        c.yp("rlock.acquire")
        if self.owner is not None:
            if not blocking:
                return False
            end = None if timeout in (-1, None) else c.clock + timeout
            while self.owner is not None:
                rem = None if end is None else end - c.clock
                if rem is not None and rem <= 0:
                    return False
                c.block(lambda: self.owner is None, rem, "rlock")
        self.owner, self.count = me, 1
        return True

    def release(self) -> None:
        self.count -= 1
        if self.count <= 0:
            self.owner, self.count = None, 0

    __enter__ = acquire

    def __exit__(self, *a: Any) -> None:
        self.release()

    def _is_owned(self) -> bool:
        return self.owner == R_get_ident()


class VCondition:
    def __init__(self, lock: Any = None) -> None:
        self.lock = lock if lock is not None else VRLock()
        self.waiters: list[list[bool]] = []
        self.acquire = self.lock.acquire
        self.release = self.lock.release

    def __enter__(self) -> Any:
        return self.lock.__enter__()

    def __exit__(self, *a: Any) -> Any:
        return self.lock.__exit__(*a)

    def wait(self, timeout: float | None = None) -> bool:
        c = CTL
        tok = [False]
        self.waiters.append(tok)
        saved = None
        if isinstance(self.lock, VRLock):
            saved = self.lock.count
            self.lock.count, self.lock.owner = 0, None
        else:
            self.lock.owner = None
        try:
            assert c is not None
            ok = c.block(lambda: tok[0], timeout, "cond.wait")
        finally:
            if tok in self.waiters:
                self.waiters.remove(tok)
        self.lock.acquire()
        if saved:
            self.lock.count = saved
        return ok

    def wait_for(self, predicate: Callable[[], bool], timeout: float | None = None) -> bool:
        c = CTL
        assert c is not None
        end = None if timeout is None else c.clock + timeout
        res = predicate()
        while not res:
            rem = None if end is None else end - c.clock
            if rem is not None and rem <= 0:
                break
            self.wait(rem)
            res = predicate()
        return res

    def notify(self, n: int = 1) -> None:
        c = _c()
        if c is not None:
            c.yp("cond.notify")
        for tok in self.waiters[:n]:
            tok[0] = True
        del self.waiters[:n]

    def notify_all(self) -> None:
        self.notify(len(self.waiters))


class VEvent:
    def __init__(self) -> None:
        self.flag = False

    def is_set(self) -> bool:
        return self.flag

    def set(self) -> None:
        c = _c()
        if c is not None:
            c.yp("event.set")
        self.flag = True

    def clear(self) -> None:
        self.flag = False

    def wait(self, timeout: float | None = None) -> bool:
        c = _c()
        if c is None:
            return self.flag
        c.yp("event.wait")
        return c.block(lambda: self.flag, timeout, "event.wait")


class VThread:
    def __init__(self, group: Any = None, target: Any = None, name: str | None = None, args: tuple = (), kwargs: dict | None = None,
                 daemon: bool | None = None) -> None:
        self.target, self.args, self.kwargs = target, args, kwargs or {}
        self._hint = name
        self.name = name or "thread"
        self.daemon = True
        self._real: Any = None
        self._done = False
        self._started = False
        self.vname: str | None = None
        self.ident: int | None = None

    def run(self) -> None:
        if self.target:
            self.target(*self.args, **self.kwargs)

    def start(self) -> None:
        c = CTL
        assert c is not None and c.active, "VThread started outside a dsched run"
        ready = R_Semaphore(0)
        hint = self._hint if (self._hint and not self._hint.startswith("Thread-")) else "T"
        vname = c.new_thread_name(hint)
        self.vname = vname
        self._started = True

        def boot() -> None:
            r = c.reg(vname)
            r.real = self._real
            self.ident = R_get_ident()
            ready.release()
            r.sem.acquire()
            try:
                if c.killing:
                    return
                self.run()
            except Killed:
                pass
            except (Deadlock, StepBudget, SelfDeadlock) as e:
                c.failed = c.failed or repr(e)
            except BaseException as e:  # noqa: BLE001 - recorded as an observation
                c.thread_exc.append((vname, e))
            finally:
                self._done = True
                c.exit_thread()

        self._real = R_Thread(target=boot, daemon=True)
        self._real.start()
        ready.acquire()
        c.yp("thread.start")

    def join(self, timeout: float | None = None) -> None:
        c = CTL
        assert c is not None
        if not self._started:
            raise RuntimeError("cannot join thread before it is started")
        c.block(lambda: self._done, timeout, "join")

    def is_alive(self) -> bool:
        return self._started and not self._done


class VTimer(VThread):
    def __init__(self, interval: float, function: Any, args: Any = None, kwargs: Any = None) -> None:
        super().__init__(name="timer")
        self.interval, self.function = interval, function
        self.fargs, self.fkw = args or [], kwargs or {}
        self.finished = VEvent()

    def cancel(self) -> None:
        self.finished.set()

    def run(self) -> None:
        self.finished.wait(self.interval)
        if not self.finished.is_set():
            self.function(*self.fargs, **self.fkw)
        self.finished.set()


class VFuture:
    """minimal concurrent.futures.Future replacement with a cooperative result()"""

    def __init__(self) -> None:
        self._done = False
        self._res: Any = None
        self._cancelled = False
        self._running = False

    def set_result(self, r: Any) -> None:
        self._res, self._done = r, True

    def result(self, timeout: float | None = None) -> Any:
        ctl().block(lambda: self._done, timeout, "future.result")
        return self._res

    def cancel(self) -> bool:
        c = _c()
        if c is not None:
            c.yp("future.cancel")
        if self._running or self._done:
            return False
        self._cancelled = True
        self._done = True
        return True

    def cancelled(self) -> bool:
        return self._cancelled

    def done(self) -> bool:
        return self._done


class VExecutor:
    """thread-per-task stand-in for ThreadPoolExecutor (trusted substitution, see DESIGN §3.3)"""

    def __init__(self, max_workers: int | None = None, *a: Any, **kw: Any) -> None:
        self.max_workers = max_workers

    def submit(self, fn: Any, *args: Any, **kwargs: Any) -> VFuture:
        fut = VFuture()

        def work() -> None:
            c = _c()
            if c is not None:
                c.yp("executor.start")
            if fut._cancelled:
                return
            fut._running = True
            try:
                fut.set_result(fn(*args, **kwargs))
            finally:
                fut._running = False
                fut._done = True

        VThread(target=work, name="pool").start()
        return fut

    def shutdown(self, wait: bool = True, **kw: Any) -> None:
        pass


PRIMS = {"Lock": VLock, "RLock": VRLock, "Condition": VCondition, "Event": VEvent, "Thread": VThread, "Timer": VTimer}
_installed = False
_prefixes: tuple = ()
TOOL = 3
skipped_modules: list[str] = []
selfcheck_problems: list[str] = []


def repo_file(*rel: str) -> tuple:
    root = os.environ.get("VERIF_REPO", "/repo")
    return tuple(os.path.join(root, "reactivex", r) for r in rel)


def install(prefixes: tuple) -> None:
    """Patch threading while reactivex is imported; start LINE monitoring for `prefixes`."""
    global _installed, _prefixes
    if _installed:
        set_files(prefixes)
        return
    assert not any(m == "reactivex" or m.startswith("reactivex.") for m in sys.modules), "reactivex imported before dsched.install"
    # pre-import stdlib users of threading so they keep the real primitives
    import asyncio  # noqa: F401
    import concurrent.futures  # noqa: F401
    import concurrent.futures.thread  # noqa: F401
    import importlib
    import logging  # noqa: F401
    import pkgutil
    import queue  # noqa: F401
    import weakref  # noqa: F401

    import typing_extensions  # noqa: F401

    saved = {k: getattr(_T, k) for k in PRIMS}
    for k, v in PRIMS.items():
        setattr(_T, k, v)
    try:
        import reactivex
        for m in pkgutil.walk_packages(reactivex.__path__, "reactivex."):
            try:
                importlib.import_module(m.name)
            except Exception:  # optional back ends (gevent, tornado, Qt ...)
                skipped_modules.append(m.name)
    finally:
        for k, v in saved.items():
            setattr(_T, k, v)
    shim = type(sys)("threading_shim")
    shim.__dict__.update(_T.__dict__)
    for k, v in PRIMS.items():
        setattr(shim, k, v)
    for name, mod in list(sys.modules.items()):
        if (name == "reactivex" or name.startswith("reactivex.")) and mod is not None:
            if getattr(mod, "threading", None) is _T:
                mod.threading = shim  # type: ignore[attr-defined]
            if hasattr(mod, "default_now"):
                mod.default_now = _vnow  # type: ignore[attr-defined]
    import reactivex.scheduler.threadpoolscheduler as tps
    tps.ThreadPoolExecutor = VExecutor  # type: ignore[misc,assignment]
    _selfcheck()
    mon = sys.monitoring
    mon.use_tool_id(TOOL, "dsched")
    mon.register_callback(TOOL, mon.events.LINE, _on_line)
    mon.set_events(TOOL, mon.events.LINE)
    _installed = True
    gc.collect()
    gc.freeze()           # everything imported so far is permanent: the per-run gc.collect() stays cheap
    gc.disable()
    set_files(prefixes)


def _vnow() -> datetime.datetime:
    c = CTL
    if c is None:
        return datetime.datetime.fromtimestamp(CLOCK0, tz=UTC)
    return c.now()


def _selfcheck() -> None:
    """no real threading primitive may be bound in reactivex module globals"""
    real = tuple(v for v in (getattr(_T, k) for k in PRIMS))
    lock_types = (type(_T.Lock()), type(_T.RLock()))
    for name, mod in list(sys.modules.items()):
        if not (name == "reactivex" or name.startswith("reactivex.")) or mod is None:
            continue
        for k, v in list(vars(mod).items()):
            if any(v is x for x in real) or isinstance(v, lock_types) or isinstance(v, (_T.Condition, _T.Event)):
                selfcheck_problems.append("%s.%s is a real threading primitive" % (name, k))


def set_files(prefixes: tuple) -> None:
    global _prefixes
    _prefixes = tuple(prefixes)
    sys.monitoring.restart_events()


def _on_line(code: Any, line: int) -> Any:
    if not code.co_filename.startswith(_prefixes):
        return sys.monitoring.DISABLE
    c = CTL
    if c is not None and c.active and not c.killing:
        c.yp((os.path.basename(code.co_filename), line))
    return None


# ------------------------------------------------------------------------------ running

WATCHDOG_S = 20.0


DEFAULT_MAX_STEPS = 400000


def run(scenario: Callable[[Ctl], Any], strategy: Strategy, max_steps: int | None = None) -> Ctl:
    """Run one scenario (the driver thread executes scenario(ctl)) under `strategy`."""
    global CTL
    gc.collect()          # finalizers run here, between runs, never at a random point inside a run
    c = Ctl(strategy, DEFAULT_MAX_STEPS if max_steps is None else max_steps)
    CTL = c
    done = R_Semaphore(0)

    def boot() -> None:
        r = c.reg("driver")
        r.sem.acquire()
        try:
            c.result = scenario(c)
        except Killed:
            pass
        except (Deadlock, StepBudget, SelfDeadlock) as e:
            c.failed = c.failed or repr(e)
        except BaseException as e:  # noqa: BLE001
            import traceback
            c.failed = c.failed or ("driver exception: %r\n%s" % (e, traceback.format_exc()[-1500:]))
        finally:
            r.done = True
            done.release()

    t = R_Thread(target=boot, daemon=True)
    t.start()
    while "driver" not in c.by_name:
        time.sleep(0.0001)
    c.by_name["driver"].real = t
    c.running = c.by_name["driver"]
    c.active = True
    c.by_name["driver"].sem.release()
    ok = done.acquire(timeout=WATCHDOG_S)
    if not ok:
        import traceback
        frames = sys._current_frames()
        stacks = []
        for ident, r in list(c.th.items()):
            f = frames.get(ident)
            if f is not None and not r.done:
                stacks.append("%s: %s" % (r.name, " < ".join("%s:%d" % (os.path.basename(fs.filename), fs.lineno) for fs in reversed(traceback.extract_stack(f)[-7:]))))
        c.failed = c.failed or ("watchdog: run exceeded %ss wall clock; steps=%d decisions=%d; %s; stacks: %s" % (
            WATCHDOG_S, c.steps, len(c.decisions), c.describe(), " || ".join(stacks)))
        c.watchdog = True  # type: ignore[attr-defined]
    # tear down: wake every parked thread with Killed
    c.killing = True
    c.active = False
    for r in list(c.th.values()):
        if not r.done:
            r.sem.release()
    leaked = 0
    for r in list(c.th.values()):
        if r.real is not None and r.real is not _T.current_thread():
            r.real.join(timeout=2.0)
            if r.real.is_alive():
                leaked += 1
    c.leaked = leaked  # type: ignore[attr-defined]
    CTL = None
    return c


def explore_dfs(scenario: Callable[[Ctl], Any], bound: int, max_runs: int, on_run: Callable[[Ctl, dict], None]) -> dict:
    """Stateless enumeration of all schedules with at most `bound` preemptions (non-preemptive
    choices are free). Calls on_run(ctl, forced) for every execution."""
    stack: list[tuple[tuple, int]] = [((), 0)]
    runs = 0
    mismatches = 0
    max_decisions = 0
    complete = True
    while stack:
        if runs >= max_runs:
            complete = False
            break
        forced_t, cost = stack.pop()
        forced = dict(forced_t)
        st = ForcedStrategy(forced)
        c = run(scenario, st)
        runs += 1
        mismatches += st.mismatch
        max_decisions = max(max_decisions, len(st.alts))
        on_run(c, forced)
        last = max(forced) if forced else -1
        for idx in range(last + 1, len(st.alts)):
            alts, preemptive = st.alts[idx]
            nc = cost + (1 if preemptive else 0)
            if nc > bound:
                continue
            for a in alts:
                stack.append((forced_t + ((idx, a),), nc))
    return {"runs": runs, "mismatches": mismatches, "max_decisions": max_decisions, "complete": complete}
