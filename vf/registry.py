"""Registry of pure, total user callbacks (total: defined for every value of every domain)."""
from __future__ import annotations

from typing import Any


def _num(v: Any) -> float:
    if isinstance(v, bool):
        return int(v)
    if isinstance(v, (int, float)):
        return v
    if isinstance(v, (str, tuple, list, dict)):
        return len(v)
    if v is None:
        return -1
    return 7


# ---- mappers (one argument)
def ident(v: Any) -> Any:
    return v


def inc(v: Any) -> Any:
    return _num(v) + 1


def wrap(v: Any) -> Any:
    return (v,)


def typename(v: Any) -> str:
    return type(v).__name__


def const_none(v: Any) -> Any:
    return None


def const_zero(v: Any) -> Any:
    return 0


def neg(v: Any) -> Any:
    return -_num(v)


MAPPERS = {"ident": ident, "inc": inc, "wrap": wrap, "typename": typename, "const_none": const_none,
           "const_zero": const_zero, "neg": neg}


# ---- indexed mappers (value, index)
def with_index(v: Any, i: int) -> Any:
    return (v, i)


def index_only(v: Any, i: int) -> Any:
    return i


MAPPERS_IX = {"with_index": with_index, "index_only": index_only}


# ---- predicates
def is_even(v: Any) -> bool:
    return int(_num(v)) % 2 == 0


def truthy(v: Any) -> bool:
    return bool(v)


def falsy(v: Any) -> bool:
    return not v


def is_none(v: Any) -> bool:
    return v is None


def lt2(v: Any) -> bool:
    return _num(v) < 2


def always(v: Any) -> bool:
    return True


def never_(v: Any) -> bool:
    return False


PREDICATES = {"is_even": is_even, "truthy": truthy, "falsy": falsy, "is_none": is_none, "lt2": lt2,
              "always": always, "never": never_}


def ix_lt2(v: Any, i: int) -> bool:
    return i < 2


def ix_even_or_truthy(v: Any, i: int) -> bool:
    return i % 2 == 0 or bool(v)


def ix_val_even(v: Any, i: int) -> bool:
    return int(_num(v) + i) % 2 == 0


PREDICATES_IX = {"ix_lt2": ix_lt2, "ix_even_or_truthy": ix_even_or_truthy, "ix_val_even": ix_val_even}


# ---- key selectors (hashable results)
def key_mod3(v: Any) -> Any:
    return int(_num(v)) % 3


def key_type(v: Any) -> Any:
    return type(v).__name__


def key_bool(v: Any) -> Any:
    return bool(v)


def key_falsy_mix(v: Any) -> Any:
    """keys that are themselves falsy and mutually equal across types: 0, False, 0.0, '', None"""
    return [0, "", None, 1][int(_num(v)) % 4]


def key_repr(v: Any) -> Any:
    return repr(v)


KEYS = {"key_mod3": key_mod3, "key_type": key_type, "key_bool": key_bool, "key_falsy_mix": key_falsy_mix,
        "key_repr": key_repr}


# ---- comparers (equality: (a, b) -> bool)
def eq_default(a: Any, b: Any) -> bool:
    return a == b


def eq_abs(a: Any, b: Any) -> bool:
    return abs(_num(a)) == abs(_num(b))


def eq_type(a: Any, b: Any) -> bool:
    return type(a) is type(b)


def eq_never(a: Any, b: Any) -> bool:
    return False


COMPARERS = {"eq_default": eq_default, "eq_abs": eq_abs, "eq_type": eq_type, "eq_never": eq_never}


# ---- sub-comparers (ordering: (a, b) -> negative/zero/positive)
def cmp_num(a: Any, b: Any) -> int:
    x, y = _num(a), _num(b)
    return (x > y) - (x < y)


def cmp_rev(a: Any, b: Any) -> int:
    return -cmp_num(a, b)


def cmp_abs(a: Any, b: Any) -> int:
    x, y = abs(_num(a)), abs(_num(b))
    return (x > y) - (x < y)


SUBCOMPARERS = {"cmp_num": cmp_num, "cmp_rev": cmp_rev, "cmp_abs": cmp_abs}


# ---- accumulators
def acc_pair(a: Any, x: Any) -> Any:
    return (a, x)


def acc_sum(a: Any, x: Any) -> Any:
    return _num(a) + _num(x)


def acc_last(a: Any, x: Any) -> Any:
    return x


def acc_count_falsy(a: Any, x: Any) -> Any:
    return _num(a) + (0 if x else 1)


ACCUMULATORS = {"acc_pair": acc_pair, "acc_sum": acc_sum, "acc_last": acc_last, "acc_count_falsy": acc_count_falsy}

num = _num
