"""Free-running tier: the same scenario functions as the deterministic tier, executed by REAL threads.

The deterministic scheduler (vf/dsched.py) serialises threads at source-line granularity: interleavings *inside* one line
(a read-modify-write compiled to several bytecodes, two attribute stores on one line) cannot occur there. Here the
scenario's threads are ordinary threading.Thread objects, the interpreter's switch interval is set to 1 microsecond, and
labelled yield points release the GIL at random. Nothing is replayable: a violation carries the recorded event log.

FreeCtl offers the subset of dsched.Ctl's interface that clock-free scenarios use: log / events / yp / me / Thread /
wait_quiescent / thread_exc. The event log is appended under the monitor's own lock and log() returns the index of the
entry, so call/return marks are exact positions in one total order that is consistent with real time."""
from __future__ import annotations

import random
import sys
import threading
import time
from typing import Any, Callable

from .common import UnitResult, digest, show

JOIN_TIMEOUT = 20.0


class FreeCtl:
    free = True

    def __init__(self, seed: Any) -> None:
        self.events: list = []
        self._lock = threading.Lock()
        self.thread_exc: list = []
        self.threads: list = []
        self.rng = random.Random(seed)
        self.p_yield = self.rng.choice((0.0, 0.1, 0.3, 0.6))
        self.clock = 0.0
        self.stuck = False
        self.result: Any = None
        self._n = 0
        self._started = 0

    def log(self, *ev: Any) -> int:
        with self._lock:
            i = len(self.events)
            self.events.append((i, 0.0, threading.current_thread().name) + ev)
            return i

    def yp(self, where: Any = None) -> None:
        # random.random() is atomic under the GIL; the per-run probability was drawn from the run's seed
        x = random.random()
        if x < self.p_yield:
            time.sleep(0 if x > self.p_yield * 0.2 else 0.00005)      # mostly "let another thread run", sometimes a real 50 us pause

    def me(self) -> Any:
        return threading.current_thread()

    def Thread(self, target: Callable[..., Any], args: tuple = (), name: str = "T") -> threading.Thread:
        with self._lock:
            self._n += 1
            nm = "%s%d" % (name, self._n)

        def boot() -> None:
            # start line: wait (briefly) until every thread the scenario has created is running, so that they overlap
            with self._lock:
                self._started += 1
            limit = time.monotonic() + 0.05
            while self._started < len(self.threads) and time.monotonic() < limit:
                time.sleep(0)
            try:
                target(*args)
            except BaseException as e:  # noqa: BLE001 - recorded, judged by the scenario
                self.thread_exc.append((nm, e))
        t = threading.Thread(target=boot, name=nm, daemon=True)
        self.threads.append(t)
        return t

    def wait_quiescent(self) -> None:
        deadline = time.monotonic() + JOIN_TIMEOUT
        for t in list(self.threads):
            t.join(max(0.0, deadline - time.monotonic()))
            if t.is_alive():
                self.stuck = True

    def sleep(self, dt: float) -> None:
        time.sleep(0)


TOOL = 4
_inject = {"files": (), "p": 0.0, "on": False, "hits": 0}


def _on_instruction(code: Any, offset: int) -> Any:
    if not code.co_filename.endswith(_inject["files"]):
        return sys.monitoring.DISABLE
    if random.random() < _inject["p"]:
        _inject["hits"] += 1
        time.sleep(0)          # releases the GIL: a real preemption at this bytecode boundary
    return None


def inject_yields(files: tuple, p: float) -> None:
    """bytecode-granular yield injection (sys.monitoring INSTRUCTION events) in the given source files: every instruction
    boundary of the code under test becomes a point at which another thread may get the GIL"""
    mon = sys.monitoring
    if not _inject["on"]:
        mon.use_tool_id(TOOL, "vf-freerun")
        mon.register_callback(TOOL, mon.events.INSTRUCTION, _on_instruction)
        _inject["on"] = True
    _inject["files"], _inject["p"] = tuple(files), p
    mon.set_events(TOOL, mon.events.INSTRUCTION if files and p > 0 else 0)
    mon.restart_events()


def explore_free(res: UnitResult, pid: str, name: str, fn: Callable[[Any, Any], Any], params: Any, *, seed: Any = 0, runs: int = 100,
                 files: tuple = ()) -> None:
    """runs fn(FreeCtl, params) `runs` times with real threads; records like dcheck._record.
    files: source files (suffixes) of the code under test in which yields are injected at bytecode granularity"""
    old = sys.getswitchinterval()
    sys.setswitchinterval(1e-6)
    try:
        for i in range(runs):
            c = FreeCtl("%s|%s|%s|%d" % (seed, pid, name, i))
            random.seed("%s|%s|%s|%d|y" % (seed, pid, name, i))
            if files:
                inject_yields(files, c.rng.choice((0.0, 0.01, 0.03, 0.1)))
            try:
                v = fn(c, params)
            except BaseException as e:  # noqa: BLE001
                res.inconclusive.append("%s: free-running scenario raised %r" % (name, e))
                return
            for t in c.threads:
                t.join(JOIN_TIMEOUT)
                if t.is_alive():
                    c.stuck = True
            res.count("runs")
            res.count("runs:free")
            if c.stuck:
                res.inconclusive.append("%s: a thread of a free-running scenario did not finish within %ds" % (name, JOIN_TIMEOUT))
                return
            # the order in which the threads' events interleaved is the observable part of the schedule
            sched_sig = digest([(e[2], e[3]) for e in c.events])
            nontrivial = bool(v.get("decided", True)) and len({e[2] for e in c.events}) >= 2
            sample = None
            if len(res.samples) < res.max_samples:
                sample = {"scenario": name, "params": show(params), "mode": "free", "sig": show(v.get("sig")), "events": show(list(c.events[:40]))}
            res.case(key=["free", name, show(params), sched_sig], nontrivial=nontrivial, sample=sample)
            res.note("free_interleavings:" + name, sched_sig)
            if v.get("decided", True):
                res.count("decided_runs")
            for k, n in (v.get("obs") or {}).items():
                res.count(k, n)
            for mech, detail in v.get("viol", []):
                res.violation(mech + ":free-running", {"scenario": name, "params": params, "detail": detail, "events": c.events[-80:],
                                                       "thread_exc": [(n, repr(e)) for n, e in c.thread_exc]},
                              {"scenario": name, "params": params, "free": True, "runs": runs, "seed": seed})
    finally:
        sys.setswitchinterval(old)
        if files:
            inject_yields((), 0.0)
            res.count("free_injected_yields", _inject["hits"])
            _inject["hits"] = 0
