"""Table of claimed checks; tools/mkmanifest.py turns it into MANIFEST.json."""

ENGINES = [
    {"name": "vlab", "path": "vf/vlab.py", "kind_free_text": "virtual-time laboratory: probe sources/observers/callbacks recording one totally ordered event log on the library's virtual-time scheduler; oracles are executable reference models or trace predicates over that log",
     "serves_properties": []},
    {"name": "dsched", "path": "vf/dsched.py", "kind_free_text": "deterministic cooperative scheduler for real threads (sys.monitoring LINE yield points, instrumented threading primitives, virtual clock); random/PCT/bounded-preemption DFS strategies; monitors for mutual exclusion, exactly-once, ordering",
     "serves_properties": []},
]

NOTES = ("All checks run the real reactivex code from /repo's working tree (PYTHONPATH) under runtime monitors; "
         "verdicts are 'held on K observed executions'. See DESIGN.md.")

NOT_APPLICABLE: dict = {}

_VT = "virtual-time runtime monitoring: generated cases run on the real operators, recorded trace compared with an executable reference model"

_DS = "controlled-schedule runtime monitoring: real threads under a deterministic scheduler (bounded-preemption enumeration + random/PCT schedules), invariant/exactly-once monitors"
_VT_NOTE = "Trusted: harness probe sources/observers, the reference model (written from the statement), the library's virtual-time scheduler ordering (checked separately by C28)."
_DS_NOTE = ("Trusted: the instrumented replacements of threading.Lock/RLock/Condition/Event/Thread/Timer and the virtual clock (vf/dsched.py); "
            "serialisation is line-granular, so interleavings inside one source line are not produced; bounds: 2-3 threads, preemption bound 1-3.")


def _vt(text, note=_VT_NOTE, technique=_VT):
    return {"engine": "vlab", "technique": technique, "text": text, "note": note}


def _ds(text, note=_DS_NOTE, technique=_DS):
    return {"engine": "dsched", "technique": technique, "text": text, "note": note}


CHECKS = {
    "C05": _vt("Thousands of generated (operator, parameters, timeline) cases per run are executed on the real operators in virtual time and every received notification (value, kind, virtual time) is compared type-strictly with a list-computation model. Exploration only: held on the cases observed."),
    "C06": _vt("47 aggregate operator variants x generated timelines/parameters (seeds, defaults incl. None, comparers, predicates) run in virtual time; value, termination kind and emission time compared with functools/itertools reference computations; sequence_equal against a two-source event model fed with the observed emission order. Exploration: held on the cases observed."),
    "C07": _vt("Exhaustive enumeration of n x start x stop x step x call form (source[a:b:c], ops.slice, .slice, source[i]) inside the stated bounds, each against list(range(n))[a:b:c], on completing and error-terminated sources (thorough: cold/hot/sync).",
               technique="virtual-time runtime monitoring: exhaustive enumeration of slice parameters, outputs compared with Python list slicing"),
    "C25": _ds("Disposable / BooleanDisposable / ScheduledDisposable hammered by 2-3 threads calling dispose() under a deterministic scheduler: every schedule with <= 2 (thorough 3) preemptions for the small scenarios, random + PCT schedules for the larger ones, plus single-thread call histories; monitor: action-run count, is_disposed after return, inner dispose on the scheduler thread."),
    "C26": _ds("Composite/Serial/SingleAssignment/MultipleAssignment disposables: single-thread random call histories compared call-by-call with a sequential model (items include falsy empty CompositeDisposables), and 2-3 thread programs under the deterministic scheduler (bounded-preemption enumeration of hand-written programs, random/PCT for generated ones) with exactly-once accounting and a 'disposed while held' hook inside each item's dispose()."),
    "C27": _ds("RefCountDisposable: single-thread random histories of get-dependent / dispose-dependent / dispose-primary compared call-by-call with a sequential model, and 2-3 thread programs under the deterministic scheduler (bounded-preemption enumeration for hand-written programs, random/PCT for generated ones); monitors: underlying dispose count <= 1 always and == 1 at quiescence, release hook checks primary and all live dependents were disposed, count >= 0. Only bounded histories are claimed.",
               note=_DS_NOTE + " The 'abstract model over unbounded histories' part of the quantifier is not claimed (out of reach of runtime monitoring)."),
    "C29": _ds("Generated finite schedules (batches of 0..400 same-instant actions, bounded self-rescheduling, cancellations) on VirtualTimeScheduler/TestScheduler/HistoricalScheduler run through start()/advance_to()/advance_by() with the scheduler's lock replaced by an instrumented lock (self re-acquisition raises) and a logical step budget over the scheduler's source lines; monitors: run returns, actions run == scheduled - cancelled, drained scheduler restarts.",
               technique="runtime monitoring with instrumented locks and a logical step budget (sys.monitoring LINE events): termination restated as bounded progress"),
    "C40": _vt("using / finally_action / do_finally / do_* stages over generated inner timelines x dispose points (every distinct virtual time and from inside on_next) x exception positions (resource factory, observable factory, inner source, callbacks) x re-subscription; monitors count resource disposals and finally-actions per subscription and compare the do_* traces with the input trace."),
    "C41": _vt("Contract table of the bridges (from_future with asyncio and concurrent futures, to_future, await, run(), start, to_async, from_callback) exercised with generated sequences, future outcomes (result / exception / cancellation / unsubscribe first) and callback argument lists; asyncio on a private loop; run() on real threads with values-only verdicts (watchdog = inconclusive).",
               note="Trusted: harness probes; asyncio event loop; for run(): the default NewThreadScheduler on real threads (no timing verdicts).",
               technique="runtime monitoring of bridge contracts: generated outcomes, observed notifications/future states compared with a contract table"),
    "C42": _vt("Generated trees of recursive scheduling on CatchScheduler(VirtualTimeScheduler) with raises at chosen nodes and handler verdicts; monitors: handler called exactly once per raise with that exception, swallow/propagate per verdict, periodic stops after a handled raise; raise-free trees compared differentially with the bare inner scheduler (two-lane inner scheduler to expose per-class wrapper caching).",
               technique="virtual-time runtime monitoring: generated scheduling trees with injected raises; handler-call monitor + differential against the wrapped scheduler"),
}
