"""Table of claimed checks; tools/mkmanifest.py turns it into MANIFEST.json."""

ENGINES = [
    {"name": "vlab", "path": "vf/vlab.py", "kind_free_text": "virtual-time laboratory: probe sources/observers/callbacks recording one totally ordered event log on the library's virtual-time scheduler; oracles are executable reference models or trace predicates over that log",
     "serves_properties": []},
    {"name": "dsched", "path": "vf/dsched.py", "kind_free_text": "deterministic cooperative scheduler for real threads (sys.monitoring LINE yield points, instrumented threading primitives, virtual clock); random/PCT/bounded-preemption DFS strategies; monitors for mutual exclusion, exactly-once, ordering",
     "serves_properties": []},
]

NOTES = ("All checks run the real reactivex code from /repo's working tree (PYTHONPATH) under runtime monitors; "
         "verdicts are 'held on K observed executions'. See DESIGN.md.")

NOT_APPLICABLE: dict = {}

_VT = "virtual-time runtime monitoring: generated cases run on the real operators, recorded trace compared with an executable reference model"

_DS = "controlled-schedule runtime monitoring: real threads under a deterministic scheduler (bounded-preemption enumeration + random/PCT schedules), invariant/exactly-once monitors"
_VT_NOTE = "Trusted: harness probe sources/observers, the reference model (written from the statement), the library's virtual-time scheduler ordering (checked separately by C28)."
_DS_NOTE = ("Trusted: the instrumented replacements of threading.Lock/RLock/Condition/Event/Thread/Timer and the virtual clock (vf/dsched.py); "
            "serialisation is line-granular, so interleavings inside one source line are not produced; bounds: 2-3 threads, preemption bound 1-3.")


def _vt(text, note=_VT_NOTE, technique=_VT):
    return {"engine": "vlab", "technique": technique, "text": text, "note": note}


def _ds(text, note=_DS_NOTE, technique=_DS):
    return {"engine": "dsched", "technique": technique, "text": text, "note": note}


CHECKS = {
    "C05": _vt("Thousands of generated (operator, parameters, timeline) cases per run are executed on the real operators in virtual time and every received notification (value, kind, virtual time) is compared type-strictly with a list-computation model. Exploration only: held on the cases observed."),
    "C06": _vt("47 aggregate operator variants x generated timelines/parameters (seeds, defaults incl. None, comparers, predicates) run in virtual time; value, termination kind and emission time compared with functools/itertools reference computations; sequence_equal against a two-source event model fed with the observed emission order. Exploration: held on the cases observed."),
    "C07": _vt("Exhaustive enumeration of n x start x stop x step x call form (source[a:b:c], ops.slice, .slice, source[i]) inside the stated bounds, each against list(range(n))[a:b:c], on completing and error-terminated sources (thorough: cold/hot/sync).",
               technique="virtual-time runtime monitoring: exhaustive enumeration of slice parameters, outputs compared with Python list slicing"),
    "C10": _vt("Sequential composition operators (concat, concat_with_iterable, for_in, start_with, repeat, retry, catch, on_error_resume_next, while_do, do_while) over generated lists of cold probe sources with arbitrary terminal kinds: trace predicates on the recorded sub/unsub/emit log (no overlap, next source only after the previous terminated in the continuing way, subscription counts) and exact output comparison with the concatenation model."),
    "C11": _vt("merge / merge_all / flat_map / flat_map_indexed / concat_map / max_concurrent=n over generated outer timelines of cold/hot/sync inners: per-inner order and timing, nothing foreign, completion at the event closing the last party, first error wins, <= n open inner subscriptions at every point, queued inners in arrival order; the model consumes the observed emission order."),
    "C12": _vt("switch_latest / switch_map / switch_map_indexed / flat_map_latest over overlapping inner lifetimes (one inner in five keeps emitting after unsubscription): an inner element is forwarded iff no later outer element had arrived at its sequence point, previous inner unsubscribed within the arrival's scheduler action, completion/error rules."),
    "C13": _vt("zip / combine_latest / with_latest_from / fork_join / amb (factory and operator forms) over 1-4 interleaved/simultaneous/empty/erroring sources: event models fed with the observed emission order; exact comparison (values, tuple order, virtual time); amb losers unsubscribed within the winner's first action."),
    "C20": _vt("Generated call histories (subscribe, unsubscribe incl. from inside callbacks, on_next, on_error, on_completed, dispose; unique values incl. falsy ones) on Subject compared per observer with a sequential reference model; DisposedException rules after dispose().",
               technique="runtime monitoring of call histories: per-observer received sequences compared with a sequential reference model"),
    "C21": _vt("As C20 for BehaviorSubject with a 'current value' cell (initial values incl. None/falsy): every new subscriber receives the current value first, also when subscribing from inside a callback.",
               technique="runtime monitoring of call histories: per-observer received sequences compared with a sequential reference model"),
    "C22": _vt("ReplaySubject on a TestScheduler with calls placed at generated virtual times: retained list at subscription = last buffer_size values with age <= window (buffer_size None/0/1..4, windows shorter/equal/longer than the gaps), then terminal, then later notifications, each exactly once, compared per observer.",
               technique="virtual-time runtime monitoring of call histories against a retention model"),
    "C23": _vt("As C20 for AsyncSubject: nothing before termination, last value (falsy values count) + completion on completion for current and later subscribers, only the error on error.",
               technique="runtime monitoring of call histories: per-observer received sequences compared with a sequential reference model"),
    "C24": _vt("Histories of subscribe/unsubscribe/connect/disconnect at generated virtual times over cold and hot probe sources for publish, share, replay, publish_value, multicast(subject / factory+mapper), publish(mapper), ref_count, auto_connect(0..3): connection state machine checked on the source sub/unsub log, subscriber traces compared with the subject model applied to what the source delivered while connected."),
    "C28": _vt("Generated programs (trees of actions that log (id, clock), schedule absolute/relative/immediate actions in the past/present/future, cancel, stop) driven by advance_to/advance_by/sleep/start/stop on VirtualTimeScheduler, TestScheduler and HistoricalScheduler, compared step by step with an independent stable-sorted-queue model: due order, FIFO ties, monotone clock, cancelled never run, advance semantics.",
               note="Trusted: the independent queue model. Open case accepted and counted: advance_to/advance_by with target == clock while due actions are pending runs nothing (pinned by the repository's own tests).",
               technique="runtime monitoring against an independent executable model of the virtual-time queue"),
    "C31": _ds("EventLoopScheduler under the deterministic thread scheduler with a virtual clock: programs of schedule/schedule_relative/schedule_absolute/cancel/sleep/dispose from 1-2 threads plus nested scheduling; bounded-preemption enumeration for hand-written programs, random/PCT for generated ones; history oracle: one non-caller thread, no overlap, FIFO by happens-before, no early start, due order, cancelled-before-commit never starts, DisposedException after dispose, nothing runnable left at quiescence, exit_if_empty exit/restart.",
               note=_DS_NOTE + " Cancellation is asserted at its sound strength (DESIGN §4 rule 4). The abstract run-loop model over all interleavings is not claimed."),
    "C36": _vt("Generated floats, timedeltas and aware datetimes (aligned and unaligned to microseconds, |t| <= 2^31 s, several time zones) through to_seconds/to_datetime/to_timedelta compared with exact Fraction/integer-microsecond arithmetic: round trips exact on aligned values, monotone on all, results aware UTC; now of every constructible scheduler class is aware UTC (child process runs with a non-UTC TZ).",
               note="Trusted: fractions.Fraction arithmetic and the datetime module.",
               technique="runtime monitoring: conversions compared with exact rational arithmetic"),
    "C37": _vt("Source factories (range, of, from_iterable, return_value, empty, never, throw, generate, generate_with_relative_time incl. zero and timedelta delays, timer, repeat_value) on a TestScheduler with the scheduler passed to the factory and to subscribe: recorded (time, notification) list compared with the Python reference (list(range()), while-loop, cumulative delays); escaped exceptions are violations."),
    "C38": _vt("Generated well-formed marble strings over the documented alphabet parsed by an independent character scanner (timespans as float and timedelta, shifts, lookup tables, raise_stopped) and compared with parse(); from_marbles/cold/hot on a TestScheduler must deliver exactly the parsed notifications at the parsed times, with one and several subscribers and with subscribers that unsubscribe inside a callback.",
               technique="runtime monitoring against an independent scanner of the documented marble syntax"),
    "C25": _ds("Disposable / BooleanDisposable / ScheduledDisposable hammered by 2-3 threads calling dispose() under a deterministic scheduler: every schedule with <= 2 (thorough 3) preemptions for the small scenarios, random + PCT schedules for the larger ones, plus single-thread call histories; monitor: action-run count, is_disposed after return, inner dispose on the scheduler thread."),
    "C26": _ds("Composite/Serial/SingleAssignment/MultipleAssignment disposables: single-thread random call histories compared call-by-call with a sequential model (items include falsy empty CompositeDisposables), and 2-3 thread programs under the deterministic scheduler (bounded-preemption enumeration of hand-written programs, random/PCT for generated ones) with exactly-once accounting and a 'disposed while held' hook inside each item's dispose()."),
    "C27": _ds("RefCountDisposable: single-thread random histories of get-dependent / dispose-dependent / dispose-primary compared call-by-call with a sequential model, and 2-3 thread programs under the deterministic scheduler (bounded-preemption enumeration for hand-written programs, random/PCT for generated ones); monitors: underlying dispose count <= 1 always and == 1 at quiescence, release hook checks primary and all live dependents were disposed, count >= 0. Only bounded histories are claimed.",
               note=_DS_NOTE + " The 'abstract model over unbounded histories' part of the quantifier is not claimed (out of reach of runtime monitoring)."),
    "C29": _ds("Generated finite schedules (batches of 0..400 same-instant actions, bounded self-rescheduling, cancellations) on VirtualTimeScheduler/TestScheduler/HistoricalScheduler run through start()/advance_to()/advance_by() with the scheduler's lock replaced by an instrumented lock (self re-acquisition raises) and a logical step budget over the scheduler's source lines; monitors: run returns, actions run == scheduled - cancelled, drained scheduler restarts.",
               technique="runtime monitoring with instrumented locks and a logical step budget (sys.monitoring LINE events): termination restated as bounded progress"),
    "C40": _vt("using / finally_action / do_finally / do_* stages over generated inner timelines x dispose points (every distinct virtual time and from inside on_next) x exception positions (resource factory, observable factory, inner source, callbacks) x re-subscription; monitors count resource disposals and finally-actions per subscription and compare the do_* traces with the input trace."),
    "C41": _vt("Contract table of the bridges (from_future with asyncio and concurrent futures, to_future, await, run(), start, to_async, from_callback) exercised with generated sequences, future outcomes (result / exception / cancellation / unsubscribe first) and callback argument lists; asyncio on a private loop; run() on real threads with values-only verdicts (watchdog = inconclusive).",
               note="Trusted: harness probes; asyncio event loop; for run(): the default NewThreadScheduler on real threads (no timing verdicts).",
               technique="runtime monitoring of bridge contracts: generated outcomes, observed notifications/future states compared with a contract table"),
    "C42": _vt("Generated trees of recursive scheduling on CatchScheduler(VirtualTimeScheduler) with raises at chosen nodes and handler verdicts; monitors: handler called exactly once per raise with that exception, swallow/propagate per verdict, periodic stops after a handled raise; raise-free trees compared differentially with the bare inner scheduler (two-lane inner scheduler to expose per-class wrapper caching).",
               technique="virtual-time runtime monitoring: generated scheduling trees with injected raises; handler-call monitor + differential against the wrapped scheduler"),
}
