"""Table of claimed checks; tools/mkmanifest.py turns it into MANIFEST.json."""

ENGINES = [
    {"name": "vlab", "path": "vf/vlab.py", "kind_free_text": "virtual-time laboratory: probe sources/observers/callbacks recording one totally ordered event log on the library's virtual-time scheduler; oracles are executable reference models or trace predicates over that log",
     "serves_properties": []},
    {"name": "dsched", "path": "vf/dsched.py", "kind_free_text": "deterministic cooperative scheduler for real threads (sys.monitoring LINE yield points, instrumented threading primitives, virtual clock); random/PCT/bounded-preemption DFS strategies; monitors for mutual exclusion, exactly-once, ordering",
     "serves_properties": []},
]

NOTES = ("All checks run the real reactivex code from /repo's working tree (PYTHONPATH) under runtime monitors; "
         "verdicts are 'held on K observed executions'. See DESIGN.md.")

NOT_APPLICABLE: dict = {}

_VT = "virtual-time runtime monitoring: generated cases run on the real operators, recorded trace compared with an executable reference model"

CHECKS = {
    "C05": {"engine": "vlab", "technique": _VT,
            "text": "Thousands of generated (operator, parameters, timeline) cases per run are executed on the real operators in virtual time and every received notification (value, kind, virtual time) is compared type-strictly with a list-computation model. Exploration only: held on the cases observed.",
            "note": "Trusted: the harness probe source/observer, the reference models (written from the statement), TestScheduler ordering (checked separately by C28)."},
}
