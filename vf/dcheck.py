"""Glue between dsched scenarios and the check protocol.

A scenario is a function `fn(ctl, params) -> verdict` executed by the driver thread, where verdict is
    {"viol": [(mech, detail), ...], "obs": {counter: n, ...}, "sig": <json-able summary>, "decided": bool}
`decided` says that the deciding situation of the property occurred in this run (e.g. dispose
returned before the action started); runs that are not decided do not count as non-trivial.
"""
from __future__ import annotations

import random
import re
from typing import Any, Callable

from . import dsched as D
from .common import UnitResult, digest, show


def _record(res: UnitResult, pid: str, name: str, params: Any, c: D.Ctl, mode: str, on_failed: str) -> None:
    v = c.result if isinstance(c.result, dict) else None
    key = digest([name, show(params), c.decisions])
    res.count("runs")
    res.count("runs:" + mode)
    res.count("preemptive_switches", c.preemptions)
    res.count("context_switches", c.switches)
    res.count("clock_advances", c.clock_advances)
    res.note("steps_per_run_below", "1e%d" % len(str(c.steps)))
    if c.stalls:
        res.count("virtual_stalls", c.stalls)
    for site, n in c.switch_sites.items():
        res.note("preemption_sites", "%s:%s" % site if isinstance(site, tuple) else str(site))
    replay = {"scenario": name, "params": params, "decisions": list(c.decisions), "dsched": True}
    if getattr(c, "leaked", 0):
        res.count("leaked_threads", c.leaked)
    if getattr(c, "watchdog", False):
        res.inconclusive.append("%s: %s" % (name, c.failed))
        return
    if c.failed is not None:
        if on_failed == "violation":
            res.violation("%s:%s:%s" % (pid, re.sub(r"\d+", "", name), c.failed.split(":")[0].replace(" ", "-")), {"failed": c.failed, "params": params, "events": c.events[-30:]}, replay)
        else:
            res.inconclusive.append("%s: run failed: %s" % (name, c.failed[:600]))
        res.case(key=key, nontrivial=False)
        return
    if v is None:
        res.inconclusive.append("%s: scenario returned no verdict" % name)
        return
    decided = bool(v.get("decided", True))
    nontrivial = decided and (c.preemptions > 0 or c.switches > 2)
    sample = None
    if len(res.samples) < res.max_samples:
        sample = {"scenario": name, "params": show(params), "mode": mode, "decisions": c.decisions[:60], "preemptions": c.preemptions,
                  "sig": show(v.get("sig")), "events": show([e for e in c.events[:40]])}
    res.case(key=key, nontrivial=nontrivial, sample=sample)
    if decided:
        res.count("decided_runs")
    for k, n in (v.get("obs") or {}).items():
        res.count(k, n)
    for t in c.thread_exc:
        res.count("thread_exceptions")
    for mech, detail in v.get("viol", []):
        res.violation(mech, {"scenario": name, "params": params, "detail": detail, "events": c.events[-60:], "thread_exc": [(n, repr(e)) for n, e in c.thread_exc]}, replay)


def explore(res: UnitResult, pid: str, name: str, fn: Callable[[D.Ctl, Any], Any], params: Any, mode: str, *, seed: Any = 0, runs: int = 100,
            bound: int = 2, max_runs: int = 20000, on_failed: str = "inconclusive", p_choices: tuple = (0.05, 0.15, 0.3),
            hot: tuple = (), stall_files: tuple = (), stall_durations: tuple = (0.05, 0.15)) -> None:
    def scen(c: D.Ctl) -> Any:
        return fn(c, params)

    if mode == "dfs":
        st = D.explore_dfs(scen, bound, max_runs, lambda c, forced: _record(res, pid, name, params, c, "dfs%d" % bound, on_failed))
        res.count("dfs_scenarios")
        if st["complete"]:
            res.count("dfs_complete_scenarios")
            res.note("dfs_complete", "%s%s:bound%d:%druns" % (name, _pstr(params), bound, st["runs"]))
        else:
            res.note("dfs_truncated", "%s%s:bound%d" % (name, _pstr(params), bound))
        if st["mismatches"]:
            res.inconclusive.append("%s: %d replay mismatches (hidden nondeterminism)" % (name, st["mismatches"]))
        return
    est = 60
    est_stall = {"lib": 40, "all": 40}
    for i in range(runs):
        rng = random.Random("%s|%s|%s|%s|%d" % (seed, pid, name, show(params), i))
        if mode == "pct":
            st = D.PCTStrategy(rng, rng.choice((2, 3, 4)), est)
        elif mode == "stall":
            st = D.StallStrategy(rng, rng.choice((0.02, 0.1)), stall_files, stall_durations, est=est_stall)
        elif mode == "hot":
            st = D.HotspotStrategy(rng, rng.choice((0.02, 0.05, 0.1)), hot, rng.choice((0.5, 0.8, 1.0)))
        else:
            st = D.RandomStrategy(rng, rng.choice(p_choices))
        c = D.run(scen, st)
        est = max(est, len(c.decisions))
        if mode == "stall" and st.n:
            # running estimate of the number of eligible points of a run, per class of run
            est_stall["lib" if st.lib_only else "all"] = st.n
        _record(res, pid, name, params, c, mode, on_failed)


def _pstr(params: Any) -> str:
    s = str(show(params))
    return "" if params in (None, {}, ()) else "[" + s[:60] + "]"


def replay(res: UnitResult, pid: str, fn: Callable[[D.Ctl, Any], Any], rep: dict) -> None:
    st = D.ReplayStrategy(rep["decisions"])
    c = D.run(lambda c: fn(c, rep["params"]), st)
    if st.mismatch:
        res.inconclusive.append("replay diverged from the recorded decisions")
    _record(res, pid, rep["scenario"], rep["params"], c, "replay", "violation")


def check_install(res: UnitResult) -> bool:
    if D.selfcheck_problems:
        res.inconclusive.append("instrumentation self-check failed: %s" % D.selfcheck_problems[:5])
        return False
    return True
