"""./check driver: shards a property check over child processes, aggregates, writes evidence.

Exit codes: 0 held on what was observed (known findings are printed, not failed);
            1 at least one violation that known_findings.json does not list;
            2 inconclusive (watchdog, self-check failed, deciding monitor not reached).
"""
from __future__ import annotations

import fnmatch
import importlib
import json
import os
import subprocess
import sys
import tempfile
import time
from collections import Counter
from concurrent.futures import ThreadPoolExecutor

from .common import HERE, REPO, digest

# (tools/mutscan.py runs many checks side by side against mutated scratch copies: it redirects both directories)
OUT = os.environ.get("VERIF_OUT_DIR") or os.path.join(HERE, "out")
EVID = os.environ.get("VERIF_EVID_DIR") or os.path.join(HERE, "evidence")
KNOWN = os.path.join(HERE, "known_findings.json")


def load_known(pid: str) -> list[dict]:
    try:
        with open(KNOWN) as f:
            data = json.load(f)
    except FileNotFoundError:
        return []
    return [k for k in data.get("known", []) if k.get("property") == pid]


def run_child(pid: str, mode: str, payload: dict, timeout: float) -> dict:
    fd, inp = tempfile.mkstemp(prefix="vf_in_", suffix=".json")
    os.close(fd)
    outp = inp.replace("vf_in_", "vf_out_")
    with open(inp, "w") as f:
        json.dump(payload, f)
    t0 = time.time()
    try:
        p = subprocess.run(
            [sys.executable, "-X", "faulthandler", "-m", "vf.worker", pid, mode, inp, outp],
            stdout=subprocess.PIPE, stderr=subprocess.PIPE, timeout=timeout, cwd=HERE,
        )
        if p.returncode != 0 or not os.path.exists(outp):
            return {"fatal": "worker exit %s: %s" % (p.returncode, p.stderr.decode(errors="replace")[-3000:]),
                    "wall": time.time() - t0}
        with open(outp) as f:
            r = json.load(f)
        r["wall"] = time.time() - t0
        r["stderr_tail"] = p.stderr.decode(errors="replace")[-800:]
        return r
    except subprocess.TimeoutExpired as e:
        tail = (e.stderr or b"").decode(errors="replace")[-1500:]
        return {"watchdog": "unit exceeded %ss wall clock: %s" % (timeout, tail), "wall": time.time() - t0}
    finally:
        for x in (inp, outp):
            try:
                os.unlink(x)
            except OSError:
                pass


def main(argv: list[str]) -> int:
    if not argv:
        print("usage: ./check <ID> [quick|thorough] [--replay file]")
        return 2
    pid = argv[0].upper()
    tier = os.environ.get("VERIF_TIER") or "quick"
    replay_file = None
    rest = argv[1:]
    while rest:
        a = rest.pop(0)
        if a in ("quick", "thorough"):
            tier = a
        elif a == "--replay":
            replay_file = rest.pop(0)
    seed = int(os.environ.get("VERIF_SEED", "0") or 0)
    mod = importlib.import_module("vf.props." + pid.lower())
    jobs = int(os.environ.get("VERIF_JOBS", "16"))
    t0 = time.time()

    if replay_file:
        with open(replay_file) as f:
            rep = json.load(f)
        r = run_child(pid, "replay", rep, 1800)
        if "fatal" in r or "watchdog" in r:
            print("INCONCLUSIVE replay: %s" % (r.get("fatal") or r.get("watchdog")))
            return 2
        for v in r["violations"]:
            print("REPRODUCED property=%s mech=%s\n  %s" % (pid, v["mech"], json.dumps(v["detail"])[:2000]))
        if not r["violations"]:
            print("replay did not reproduce a violation")
        return 1 if r["violations"] else 0

    units = mod.units(tier, seed)
    unit_timeout = float(os.environ.get("VERIF_UNIT_TIMEOUT", getattr(mod, "UNIT_TIMEOUT", {}).get(tier, 420 if tier == "quick" else 5400)))
    with ThreadPoolExecutor(max_workers=jobs) as ex:
        results = list(ex.map(lambda u: run_child(pid, "unit", {"unit": u, "tier": tier, "seed": seed}, unit_timeout), units))

    evaluations = 0
    keys: set[str] = set()
    counters: Counter = Counter()
    sets: dict[str, set] = {}
    samples: list = []
    violations: list[dict] = []
    inconclusive: list[str] = []
    for u, r in zip(units, results):
        if "fatal" in r:
            inconclusive.append("unit %s: %s" % (json.dumps(u)[:120], r["fatal"]))
            continue
        if "watchdog" in r:
            inconclusive.append("unit %s: %s" % (json.dumps(u)[:120], r["watchdog"]))
            continue
        evaluations += r["evaluations"]
        keys.update(r["keys"])
        counters.update(r["counters"])
        for k, v in r["sets"].items():
            sets.setdefault(k, set()).update(v)
        for s in r["samples"]:
            if len(samples) < 6:
                samples.append(s)
        violations.extend(r["violations"])
        inconclusive.extend(r["inconclusive"])

    for k, v in sets.items():
        counters["set:" + k] = len(v)
    # rule 6: counters decide trust
    for name, minimum in getattr(mod, "REQUIRED", {}).items():
        m = minimum[tier] if isinstance(minimum, dict) else minimum
        if counters.get(name, 0) < m:
            inconclusive.append("deciding counter %s=%s < %s" % (name, counters.get(name, 0), m))
    if len(keys) < 2 and not inconclusive:
        inconclusive.append("fewer than 2 distinct non-trivial cases")

    known = load_known(pid)
    new_v, known_hits = [], {}
    for v in violations:
        hit = next((k for k in known if fnmatch.fnmatchcase(v["mech"], k["mech"])), None)
        if hit is not None:
            known_hits.setdefault(hit["mech"], [hit, 0, v])
            known_hits[hit["mech"]][1] += 1
        else:
            new_v.append(v)
    for kf in sorted(known, key=lambda k: k["mech"]):
        n = known_hits.get(kf["mech"], [None, 0])[1]
        print("KNOWN-FINDING: property=%s %s [mech=%s, %s]" % (pid, kf["what"], kf["mech"],
                                                              "%d witness(es) this run" % n if n else "not exercised by this run's sample"))

    rdir = os.path.join(OUT, "replays", pid)
    seen_mech: Counter = Counter()
    printed = 0
    for v in new_v:
        seen_mech[v["mech"]] += 1
        if seen_mech[v["mech"]] > 3:
            continue
        os.makedirs(rdir, exist_ok=True)
        path = os.path.join(rdir, "%s.json" % digest([v["mech"], v["replay"]]))
        body = dict(v["replay"])
        body.update({"property": pid, "mech": v["mech"], "detail": v["detail"], "tier": tier, "seed": seed})
        with open(path, "w") as f:
            json.dump(body, f, indent=1)
        print("VIOLATION property=%s replay=%s" % (pid, path))
        print("  mech=%s detail=%s" % (v["mech"], json.dumps(v["detail"])[:1500]))
        printed += 1

    wall = time.time() - t0
    cov = {
        "evaluations": evaluations,
        "distinct_nontrivial": len(keys),
        "rule": getattr(mod, "RULE", ""),
        "samples": samples if samples else ["(no sample recorded)"],
        "counters": dict(sorted(counters.items())),
        "observed_sets": {k: {"size": len(v), "items": sorted(v)[:80]} for k, v in sorted(sets.items())},
        "units": len(units),
        "violations_new_by_mechanism": dict(seen_mech),
        "known_findings_hit": {m: n for m, (h, n, v) in known_hits.items()},
        "inconclusive_reasons": inconclusive[:10],
    }
    if getattr(mod, "exhaustive", None):
        cov["exhaustive"] = bool(mod.exhaustive(tier))
    ev = {
        "property_id": pid, "tier": tier, "seed": seed, "level": getattr(mod, "LEVEL", "exploration"),
        "coverage": cov, "assumptions": list(getattr(mod, "ASSUMPTIONS", [])), "wall_s": round(wall, 2),
        "violations": len(new_v),
    }
    os.makedirs(EVID, exist_ok=True)
    with open(os.path.join(EVID, pid + ".json"), "w") as f:
        json.dump(ev, f, indent=1, default=repr)
        f.write("\n")

    verdict = "VIOLATED" if new_v else ("INCONCLUSIVE" if inconclusive else "HELD")
    print("%s %s tier=%s seed=%s evaluations=%d distinct_nontrivial=%d violations=%d known=%d wall=%.1fs" % (
        pid, verdict, tier, seed, evaluations, len(keys), len(new_v), sum(n for _, n, _ in known_hits.values()), wall))
    interesting = {k: v for k, v in counters.items()}
    print("  observed: " + json.dumps(dict(sorted(interesting.items())))[:1800])
    slow = sorted(((r.get("wall", 0), json.dumps(u)[:100]) for u, r in zip(units, results)), reverse=True)[:3]
    print("  slowest units: " + "; ".join("%.1fs %s" % x for x in slow))
    for r in inconclusive[:5]:
        print("  inconclusive: " + r[:1500])
    if new_v:
        return 1
    if inconclusive:
        return 2
    return 0


if __name__ == "__main__":
    sys.exit(main(sys.argv[1:]))
