"""Single-source operator differential: run `source.pipe(op)` in the lab, compare with a model."""
from __future__ import annotations

from typing import Any, Callable

from .common import show, strict
from .vlab import Lab, ProbeObserver

SUB_AT = 200.0


def make_input(r: Any, timeline: list, hot: bool) -> tuple[list, list]:
    """timeline: [(t_rel, kind, value)] relative offsets >= 0.
    Returns (source_msgs, seen) where seen = what a subscriber at SUB_AT is offered (absolute times)."""
    if hot:
        start = SUB_AT - r.choice([0, 0, 10, 20])
        msgs = []
        for (t, k, v) in timeline:
            a = start + t
            if a == SUB_AT:
                a += 1
            msgs.append((a, k, v))
        seen = [(t, k, v) for (t, k, v) in msgs if t > SUB_AT]
        # a hot source that terminated before subscription offers nothing
        return msgs, seen
    return list(timeline), [(SUB_AT + t, k, v) for (t, k, v) in timeline]


def cut_after_terminal(seen: list) -> list:
    out = []
    for m in seen:
        out.append(m)
        if m[1] in "EC":
            break
    return out


def run_single(build: Callable[[Lab, Any], Any], source_msgs: list, hot: bool, clock: str = "num",
               sub_at: float = SUB_AT, observer_opts: dict | None = None, fluent: Callable[[Any], Any] | None = None,
               dispose_at: float | None = None, sub_scheduler: Callable[[Lab], Any] | None = None) -> tuple[Lab, ProbeObserver, Any]:
    lab = Lab(clock)
    src = lab.hot("s", source_msgs) if hot else lab.cold("s", source_msgs)
    obs = lab.observer("top", **(observer_opts or {}))

    def do_sub() -> None:
        o = build(lab, src)
        if sub_scheduler is not None:
            # subscribe(observer, scheduler=<another scheduler object>): an operator that was given a scheduler explicitly keeps using that one
            obs.subscribe_to(o, scheduler=sub_scheduler(lab))
        else:
            obs.subscribe_to(o)
    lab.at(sub_at, do_sub)
    if dispose_at is not None:
        lab.at(dispose_at, obs.dispose)
    lab.run()
    return lab, obs, src


def match_expected(expected: list, actual: list) -> str | None:
    """expected/actual: [(t, kind, value)]. For kind E the expected value may be an exception
    instance (identity), an exception class (isinstance) or None (any error)."""
    if len(expected) != len(actual):
        return "length %d != %d" % (len(expected), len(actual))
    for i, (e, a) in enumerate(zip(expected, actual)):
        if e[1] != a[1]:
            return "item %d kind %s != %s" % (i, e[1], a[1])
        if e[0] is not None and abs(e[0] - a[0]) > 1e-9:
            return "item %d time %s != %s" % (i, e[0], a[0])
        if e[1] == "N":
            if strict(e[2]) != strict(a[2]):
                return "item %d value %r != %r" % (i, e[2], a[2])
        elif e[1] == "E":
            ex = e[2]
            if isinstance(ex, type):
                if not isinstance(a[2], ex):
                    return "item %d error %r is not a %s" % (i, a[2], ex.__name__)
            elif ex is not None and ex is not a[2]:
                return "item %d error object %r is not %r" % (i, a[2], ex)
    return None


def show_timed(xs: list) -> list:
    return [[t, k, show(v) if not isinstance(v, type) else v.__name__] for (t, k, v) in xs]


def run_twice(build: Callable[[Lab, Any], Any], msgs1: list, msgs2: list, clock: str = "num", sub_at: float = SUB_AT) -> tuple:
    """The observable is built ONCE over a cold source that yields msgs1 to its first and msgs2 to its second subscription;
    it is subscribed at sub_at and again after the first timeline is over. Returns (lab, obs1, obs2, t2)."""
    lab = Lab(clock)
    src = lab.cold("s", msgs1, alt_msgs=[msgs2])
    obs1, obs2 = lab.observer("first"), lab.observer("second")
    holder: dict = {}

    def sub1() -> None:
        holder["o"] = build(lab, src)
        obs1.subscribe_to(holder["o"])
    t2 = sub_at + (max([m[0] for m in msgs1]) if msgs1 else 0) + 35.0
    lab.at(sub_at, sub1)
    lab.at(t2, lambda: obs2.subscribe_to(holder["o"]))
    lab.run()
    return lab, obs1, obs2, t2
