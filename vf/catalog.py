"""Operator catalog for generated pipelines (C01-C03 and anybody else who wants random pipelines).

CATALOG is a list of `Entry(name, make, flags)`; `make(g) -> (operator, description)` where `operator` is a
callable Observable -> Observable and `description` a short JSON-able string with the drawn arguments.

`g` (see `Gen`) gives the entry everything it may draw from:
    g.r                      random.Random of the case (all randomness is consumed while BUILDING, never at run time)
    g.lab, g.ts              the vlab.Lab and its virtual-time scheduler
    g.src(role)              another probe source (second / trigger / sampler / duration / inner source); logged
    g.inners(n)              a pool of n probe sources for mappers that return an inner observable
    g.empty()                a probe source that completes at once
    g.fn(name, impl)         wraps a user callback in a lab.CallbackProbe (name is prefixed with "<stage>:<op>.")
    g.rel(t) / g.abs(t)      virtual-time values for the lab's clock kind
    g.sched()                value for an optional `scheduler=` parameter (None or the lab scheduler)
    g.pick(registry_dict)    (name, function) from vf.registry

Flags
    cold_ok        deterministic and non-multicasting by specification: usable for re-subscription checks
    nested         emits observables (windows / groups)
    flatten        consumes observables (only meaningful after a nested entry)
    agnostic       never looks at the elements: may follow a nested entry and keeps them nested
    absorbs_error  turns an upstream on_error into something else (materialize/catch/retry/on_error_resume_next)
    time           uses scheduler time
    multicast      goes through a subject / connectable
    uses_callbacks takes at least one user callback
    early          can terminate before its source does
    aux            owns a second / trigger / sampler / duration / boundary source that may still be pending
    inner          subscribes several sources concurrently or in sequence (merge, concat, zip, flat_map ...)
    sub_on         subscribes AND unsubscribes upstream through scheduler actions (subscribe_on)
    resub          re-subscribes to its source (retry / repeat / while_do / do_while)

do_after_next / do_on_* / do_finally are deliberately NOT here (not exported from reactivex.operators; C40 owns them).
partition / partition_indexed (not pipeable: return a list), to_future, to_marbles are not here either.

Shapes that never finish in virtual time are avoided by construction: the closing sources of window_when / buffer_when
come from g.delayed_src() (a closing observable that fires in the instant it is subscribed re-opens a window in the same
instant, forever); expand's mapper returns the empty source after a few calls; repeat/retry/while_do are bounded.
"""
from __future__ import annotations

from typing import Any, Callable

import reactivex as rx
import reactivex.operators as ops
from reactivex import Observable, abc
from reactivex.disposable import CompositeDisposable, Disposable
from reactivex.observer import Observer
from reactivex.subject import ReplaySubject, Subject

from . import registry as R
from .vlab import Lab, ProbeSource, SrcErr, gen_timeline

SUB_AT = 100.0          # virtual time at which the harness subscribes
HOT_START = 85.0        # hot timelines start a little earlier, so that some elements are missed


# ------------------------------------------------------------------------------------------- sources

class IterSource(Observable):
    """Logged wrapper around the LIBRARY's from_iterable (a synchronous burst on the subscription's scheduler,
    cancellable only through from_iterable's own `disposed` polling). term: "C", "E" or None (never ends)."""

    def __init__(self, lab: Lab, name: str, values: list, term: str | None, pull: Any = None) -> None:
        super().__init__()
        self.lab, self.name, self.values, self.term = lab, name, list(values), term
        self.pull = pull      # called before every element is handed out: pulling a user's iterator is running user code
        self.kind, self.nonconf = "iter", False
        self.msgs = [(0, "N", v) for v in values] + ([(0, term, SrcErr("iter") if term == "E" else None)] if term else [])
        self.nsub = 0
        lab.sources.append(self)  # type: ignore[arg-type]

    def _subscribe_core(self, observer: Any, scheduler: Any = None) -> abc.DisposableBase:
        sid = self.nsub
        self.nsub += 1
        lab, name = self.lab, self.name
        lab.add("sub", name, sid)
        body: Observable = rx.from_iterable(_Pulled(self.values, self.pull) if self.pull is not None else self.values)
        if self.term == "E":
            body = body.pipe(ops.concat(rx.throw(self.msgs[-1][2])))
        elif self.term is None:
            body = body.pipe(ops.concat(rx.never()))
        body = body.pipe(ops.do_action(lambda v: lab.add("emit", name, sid, "N", v),
                                       lambda e: lab.add("emit", name, sid, "E", e),
                                       lambda: lab.add("emit", name, sid, "C", None)))
        inner = body.subscribe(observer, scheduler=scheduler)
        return CompositeDisposable(inner, Disposable(lambda: lab.add("unsub", name, sid)))


class ThrowingSyncSource(ProbeSource):
    """Non-conforming synchronous source whose subscribe function raises after it has emitted everything (terminal
    notification included): Observable.subscribe must not turn that exception into a second terminal call."""

    def _subscribe_core(self, observer: Any, scheduler: Any = None) -> abc.DisposableBase:
        super()._subscribe_core(observer, scheduler)
        self.lab.add("note", "subscribe_raises", self.name)
        raise SrcErr("subscribe of %s raised" % self.name)


class _Pulled:
    def __init__(self, values: list, pull: Any) -> None:
        self.values, self.pull = values, pull

    def __iter__(self) -> Any:
        for v in self.values:
            self.pull()
            yield v


class Gen:
    """Build-time context handed to the catalog entries."""

    def __init__(self, r: Any, lab: Lab, p_nonconf: float = 0.0, max_sources: int = 3,
                 kinds: tuple = ("cold", "cold", "cold", "hot", "hot", "sync", "iter"), domain: str = "ints",
                 explicit_sched: bool = False, term_policy: dict | None = None, maxlen: int = 5) -> None:
        self.r, self.lab, self.ts = r, lab, lab.ts
        self.p_nonconf, self.max_sources, self.kinds, self.domain = p_nonconf, max_sources, kinds, domain
        self.explicit_sched = explicit_sched
        self.term_policy = term_policy or {}
        self.maxlen = maxlen
        self.sources: list[Any] = []
        self.source_desc: list[dict] = []
        self.callbacks: list[Any] = []          # CallbackProbe objects, .stage / .role attributes added
        self.stage = -1
        self.opname = "-"
        self._empty: Any = None

    # ---- sources
    def new_source(self, role: str = "aux", kind: str | None = None, term: Any = "policy", nonconf: bool | None = None,
                   min_offset: float = 0) -> Any:
        r = self.r
        kind = kind or r.choice(self.kinds)
        if nonconf is None:
            nonconf = r.random() < self.p_nonconf
        if kind == "iter":
            nonconf = False
        if term == "policy":
            pol = self.term_policy.get(role, "auto")
            term = pol(r) if callable(pol) else pol
        name = "s%d" % len(self.sources)
        start = HOT_START if kind == "hot" else min_offset
        msgs = gen_timeline(r, self.domain, maxlen=self.maxlen, start=start, term=term, nonconf=nonconf)
        if kind == "iter":
            term_kind = next((k for (_, k, _) in msgs if k in "EC"), None)
            pull = self.lab.fn("%s.iterator_next" % name, lambda: None)
            pull.stage, pull.role, pull.opname = -1, "iterator_next", "from_iterable"   # type: ignore[attr-defined]
            self.callbacks.append(pull)
            src: Any = IterSource(self.lab, name, [v for (_, k, v) in msgs if k == "N"], term_kind, pull)
        elif kind == "cold":
            src = self.lab.cold(name, msgs, nonconf=nonconf)
        elif kind == "hot":
            src = self.lab.hot(name, msgs, nonconf=nonconf)
        elif nonconf and r.random() < 0.4:
            src = ThrowingSyncSource(self.lab, name, msgs, "sync", nonconf=True)
            kind = "sync+subscribe-raises"
        else:
            src = self.lab.sync(name, msgs, nonconf=nonconf)
        self.sources.append(src)
        self.source_desc.append({"name": name, "kind": kind, "role": role, "nonconf": bool(nonconf),
                                 "msgs": [[t, k, _short(v)] for (t, k, v) in src.msgs]})
        return src

    def src(self, role: str = "aux") -> Any:
        """A second/trigger/sampler/duration source: a new one while the budget lasts, else an existing one
        (probe sources may be subscribed any number of times; every subscription has its own sid)."""
        if len(self.sources) < self.max_sources:
            return self.new_source(role)
        return self.r.choice(self.sources)

    def delayed_src(self, role: str = "closing") -> Any:
        """A dedicated cold source whose first notification comes strictly later than its subscription (closing
        sources of window_when / buffer_when: one that fires at once re-opens a window in the same instant, forever)."""
        return self.new_source(role, kind="cold", min_offset=5)

    def inners(self, n: int = 2, role: str = "inner") -> list:
        return [self.src(role) for _ in range(n)]

    def empty(self) -> Any:
        if self._empty is None:
            self._empty = self.lab.sync("empty", [(0, "C", None)])
        return self._empty

    # ---- callbacks
    def fn(self, name: str, impl: Callable[..., Any]) -> Any:
        p = self.lab.fn("%d:%s.%s" % (self.stage, self.opname, name), impl)
        p.stage, p.role, p.opname = self.stage, name, self.opname   # type: ignore[attr-defined]
        self.callbacks.append(p)
        return p

    def pick(self, table: dict) -> tuple:
        k = self.r.choice(sorted(table))
        return k, table[k]

    # ---- time / scheduler
    def rel(self, t: float) -> Any:
        return self.lab.rel(t)

    def abs(self, t: float) -> Any:
        return self.lab.abs(t)

    def sched(self) -> Any:
        if self.explicit_sched or self.r.random() < 0.5:
            return self.ts
        return None

    def dur(self, choices: tuple = (0, 5, 10, 15)) -> float:
        return self.r.choice(choices)


def _short(v: Any) -> Any:
    if isinstance(v, BaseException):
        return "%s(%s)" % (type(v).__name__, ",".join(map(str, v.args)))
    if v is None or isinstance(v, (bool, int, float, str)):
        return v
    return repr(v)[:40]


# ------------------------------------------------------------------------------------------- catalog

class Entry:
    __slots__ = ("name", "make", "flags")

    def __init__(self, name: str, make: Callable[[Gen], tuple], flags: frozenset) -> None:
        self.name, self.make, self.flags = name, make, flags

    def __repr__(self) -> str:
        return "Entry(%s)" % self.name


CATALOG: list[Entry] = []
BY_NAME: dict[str, Entry] = {}


def entry(name: str, flags: str = "") -> Callable:
    def deco(f: Callable[[Gen], tuple]) -> Callable:
        e = Entry(name, f, frozenset(flags.split()))
        assert name not in BY_NAME, name
        CATALOG.append(e)
        BY_NAME[name] = e
        return f
    return deco


def _mapper(g: Gen, role: str = "mapper") -> tuple:
    k, f = g.pick(R.MAPPERS)
    return g.fn(role, f), k


def _pred(g: Gen, role: str = "predicate") -> tuple:
    k, f = g.pick(R.PREDICATES)
    return g.fn(role, f), k


def _pred_ix(g: Gen, role: str = "predicate") -> tuple:
    k, f = g.pick(R.PREDICATES_IX)
    return g.fn(role, f), k


def _key(g: Gen, role: str = "key_mapper") -> tuple:
    k, f = g.pick(R.KEYS)
    return g.fn(role, f), k


def _cmp(g: Gen, role: str = "comparer") -> tuple:
    k, f = g.pick(R.COMPARERS)
    return g.fn(role, f), k


def _subcmp(g: Gen, role: str = "comparer") -> tuple:
    k, f = g.pick(R.SUBCOMPARERS)
    return g.fn(role, f), k


def _acc(g: Gen, role: str = "accumulator") -> tuple:
    k, f = g.pick(R.ACCUMULATORS)
    return g.fn(role, f), k


def _inner_mapper(g: Gen, role: str = "mapper", n: int = 2, limit: int | None = None, delayed: bool = False) -> tuple:
    """A user mapper returning probe sources from a pool fixed at build time (round robin by call number);
    after `limit` calls it returns the empty probe source."""
    pool = [g.delayed_src(role)] if delayed else g.inners(n)
    empty = g.empty() if limit is not None else None
    cnt = [0]

    def impl(*a: Any) -> Any:
        i = cnt[0]
        cnt[0] += 1
        if limit is not None and i >= limit:
            return empty
        return pool[i % len(pool)]

    return g.fn(role, impl), "%s->[%s]%s" % (role, ",".join(p.name for p in pool), "" if limit is None else "x%d" % limit)


def _cnt(g: Gen) -> int:
    return g.r.choice([0, 1, 1, 2, 2, 3, 5])


# ---- element-wise ---------------------------------------------------------------------------------

@entry("map", "cold_ok uses_callbacks")
def _(g: Gen) -> tuple:
    f, k = _mapper(g)
    return ops.map(f), "map(%s)" % k


@entry("map_indexed", "cold_ok uses_callbacks")
def _(g: Gen) -> tuple:
    k, f = g.pick(R.MAPPERS_IX)
    return ops.map_indexed(g.fn("mapper", f)), "map_indexed(%s)" % k


@entry("filter", "cold_ok uses_callbacks")
def _(g: Gen) -> tuple:
    f, k = _pred(g)
    return ops.filter(f), "filter(%s)" % k


@entry("filter_indexed", "cold_ok uses_callbacks")
def _(g: Gen) -> tuple:
    f, k = _pred_ix(g)
    return ops.filter_indexed(f), "filter_indexed(%s)" % k


@entry("take", "cold_ok agnostic early")
def _(g: Gen) -> tuple:
    n = _cnt(g)
    return ops.take(n), "take(%d)" % n


@entry("skip", "cold_ok agnostic")
def _(g: Gen) -> tuple:
    n = _cnt(g)
    return ops.skip(n), "skip(%d)" % n


@entry("take_while", "cold_ok uses_callbacks early")
def _(g: Gen) -> tuple:
    f, k = _pred(g)
    inc = g.r.random() < 0.5
    return ops.take_while(f, inc), "take_while(%s,inclusive=%s)" % (k, inc)


@entry("take_while_indexed", "cold_ok uses_callbacks early")
def _(g: Gen) -> tuple:
    f, k = _pred_ix(g)
    inc = g.r.random() < 0.5
    return ops.take_while_indexed(f, inc), "take_while_indexed(%s,inclusive=%s)" % (k, inc)


@entry("skip_while", "cold_ok uses_callbacks")
def _(g: Gen) -> tuple:
    f, k = _pred(g)
    return ops.skip_while(f), "skip_while(%s)" % k


@entry("skip_while_indexed", "cold_ok uses_callbacks")
def _(g: Gen) -> tuple:
    f, k = _pred_ix(g)
    return ops.skip_while_indexed(f), "skip_while_indexed(%s)" % k


@entry("distinct", "cold_ok uses_callbacks")
def _(g: Gen) -> tuple:
    kf, kk = _key(g)
    cf, ck = _cmp(g)
    return ops.distinct(kf, cf), "distinct(%s,%s)" % (kk, ck)


@entry("distinct_plain", "cold_ok")
def _(g: Gen) -> tuple:
    return ops.distinct(), "distinct()"


@entry("distinct_until_changed", "cold_ok uses_callbacks")
def _(g: Gen) -> tuple:
    kf, kk = _key(g)
    cf, ck = _cmp(g)
    return ops.distinct_until_changed(kf, cf), "distinct_until_changed(%s,%s)" % (kk, ck)


@entry("pairwise", "cold_ok")
def _(g: Gen) -> tuple:
    return ops.pairwise(), "pairwise()"


@entry("start_with", "cold_ok")
def _(g: Gen) -> tuple:
    args = [g.r.choice([None, 0, "", 5]) for _ in range(g.r.randint(0, 3))]
    return ops.start_with(*args), "start_with(%s)" % ",".join(map(repr, args))


@entry("default_if_empty", "cold_ok")
def _(g: Gen) -> tuple:
    return ops.default_if_empty(42), "default_if_empty(42)"


@entry("ignore_elements", "cold_ok agnostic")
def _(g: Gen) -> tuple:
    return ops.ignore_elements(), "ignore_elements()"


@entry("take_last", "cold_ok agnostic")
def _(g: Gen) -> tuple:
    n = _cnt(g)
    return ops.take_last(n), "take_last(%d)" % n


@entry("skip_last", "cold_ok agnostic")
def _(g: Gen) -> tuple:
    n = _cnt(g)
    return ops.skip_last(n), "skip_last(%d)" % n


@entry("take_last_buffer", "cold_ok")
def _(g: Gen) -> tuple:
    n = _cnt(g)
    return ops.take_last_buffer(n), "take_last_buffer(%d)" % n


@entry("element_at", "cold_ok agnostic early")
def _(g: Gen) -> tuple:
    n = _cnt(g)
    return ops.element_at(n), "element_at(%d)" % n


@entry("element_at_or_default", "cold_ok agnostic early")
def _(g: Gen) -> tuple:
    n = _cnt(g)
    return ops.element_at_or_default(n, "dflt"), "element_at_or_default(%d)" % n


@entry("first", "cold_ok early uses_callbacks")
def _(g: Gen) -> tuple:
    if g.r.random() < 0.5:
        return ops.first(), "first()"
    f, k = _pred(g)
    return ops.first(f), "first(%s)" % k


@entry("first_or_default", "cold_ok early uses_callbacks")
def _(g: Gen) -> tuple:
    if g.r.random() < 0.5:
        return ops.first_or_default(None, "dflt"), "first_or_default()"
    f, k = _pred(g)
    return ops.first_or_default(f, "dflt"), "first_or_default(%s)" % k


@entry("last", "cold_ok uses_callbacks")
def _(g: Gen) -> tuple:
    if g.r.random() < 0.5:
        return ops.last(), "last()"
    f, k = _pred(g)
    return ops.last(f), "last(%s)" % k


@entry("last_or_default", "cold_ok uses_callbacks")
def _(g: Gen) -> tuple:
    if g.r.random() < 0.5:
        return ops.last_or_default("dflt"), "last_or_default()"
    f, k = _pred(g)
    return ops.last_or_default("dflt", f), "last_or_default(%s)" % k


@entry("single", "cold_ok early uses_callbacks")
def _(g: Gen) -> tuple:
    if g.r.random() < 0.5:
        return ops.single(), "single()"
    f, k = _pred(g)
    return ops.single(f), "single(%s)" % k


@entry("single_or_default", "cold_ok early uses_callbacks")
def _(g: Gen) -> tuple:
    if g.r.random() < 0.5:
        return ops.single_or_default(None, "dflt"), "single_or_default()"
    f, k = _pred(g)
    return ops.single_or_default(f, "dflt"), "single_or_default(%s)" % k


@entry("single_or_default_async", "cold_ok early")
def _(g: Gen) -> tuple:
    hd = g.r.random() < 0.5
    return ops.single_or_default_async(hd, "dflt"), "single_or_default_async(%s)" % hd


@entry("find", "cold_ok early uses_callbacks")
def _(g: Gen) -> tuple:
    k, f = g.pick(R.PREDICATES)
    return ops.find(g.fn("predicate", lambda x, i, s: f(x))), "find(%s)" % k


@entry("find_index", "cold_ok early uses_callbacks")
def _(g: Gen) -> tuple:
    k, f = g.pick(R.PREDICATES)
    return ops.find_index(g.fn("predicate", lambda x, i, s: f(x))), "find_index(%s)" % k


@entry("starmap", "cold_ok uses_callbacks")
def _(g: Gen) -> tuple:
    return ops.compose(ops.map(lambda v: (v, 1)), ops.starmap(g.fn("mapper", lambda a, b: (b, a)))), "pair|starmap(swap)"


@entry("starmap_indexed", "cold_ok uses_callbacks")
def _(g: Gen) -> tuple:
    return (ops.compose(ops.map(lambda v: (v, 1, 0)), ops.starmap_indexed(g.fn("mapper", lambda a, b, i: (i, a)))),
            "triple|starmap_indexed")


@entry("pluck", "cold_ok")
def _(g: Gen) -> tuple:
    return ops.compose(ops.map(lambda v: {"a": v} if v != 3 else {"b": v}), ops.pluck("a")), "dict|pluck(a)"


@entry("pluck_attr", "cold_ok")
def _(g: Gen) -> tuple:
    return ops.compose(ops.map(lambda v: _Box(v) if v != 3 else v), ops.pluck_attr("a")), "box|pluck_attr(a)"


class _Box:
    def __init__(self, a: Any) -> None:
        self.a = a


@entry("materialize", "cold_ok absorbs_error")
def _(g: Gen) -> tuple:
    return ops.materialize(), "materialize()"


@entry("materialize_dematerialize", "cold_ok")
def _(g: Gen) -> tuple:
    return ops.compose(ops.materialize(), ops.dematerialize()), "materialize|dematerialize"


@entry("as_observable", "cold_ok agnostic")
def _(g: Gen) -> tuple:
    return ops.as_observable(), "as_observable()"


@entry("slice", "cold_ok agnostic early")
def _(g: Gen) -> tuple:
    a, b, c = g.r.choice([(0, 2, 1), (1, None, 1), (None, 3, 2), (-2, None, 1), (None, -1, 1), (1, 4, 2)])
    return ops.slice(a, b, c), "slice(%s,%s,%s)" % (a, b, c)


@entry("do_action", "cold_ok agnostic uses_callbacks")
def _(g: Gen) -> tuple:
    return (ops.do_action(g.fn("on_next", lambda v: None), g.fn("on_error", lambda e: None), g.fn("on_completed", lambda: None)),
            "do_action(3 callbacks)")


@entry("tap", "cold_ok agnostic uses_callbacks")
def _(g: Gen) -> tuple:
    return ops.tap(g.fn("on_next", lambda v: None)), "tap(on_next)"


@entry("do", "cold_ok agnostic uses_callbacks")
def _(g: Gen) -> tuple:
    o = Observer(g.fn("on_next", lambda v: None), g.fn("on_error", lambda e: None), g.fn("on_completed", lambda: None))
    return ops.do(o), "do(Observer)"


@entry("finally_action", "cold_ok agnostic uses_callbacks")
def _(g: Gen) -> tuple:
    return ops.finally_action(g.fn("action", lambda: None)), "finally_action()"


@entry("zip_with_iterable", "cold_ok early")
def _(g: Gen) -> tuple:
    n = g.r.randint(0, 4)
    return ops.zip_with_iterable(list(range(n))), "zip_with_iterable(range(%d))" % n


@entry("zip_with_list", "cold_ok early")
def _(g: Gen) -> tuple:
    n = g.r.randint(0, 4)
    return ops.zip_with_list(list(range(n))), "zip_with_list(range(%d))" % n


# ---- aggregates -----------------------------------------------------------------------------------

@entry("scan", "cold_ok uses_callbacks")
def _(g: Gen) -> tuple:
    f, k = _acc(g)
    if g.r.random() < 0.5:
        return ops.scan(f, 0), "scan(%s,seed=0)" % k
    return ops.scan(f), "scan(%s)" % k


@entry("reduce", "cold_ok uses_callbacks")
def _(g: Gen) -> tuple:
    f, k = _acc(g)
    if g.r.random() < 0.5:
        return ops.reduce(f, 0), "reduce(%s,seed=0)" % k
    return ops.reduce(f), "reduce(%s)" % k


@entry("count", "cold_ok uses_callbacks")
def _(g: Gen) -> tuple:
    if g.r.random() < 0.5:
        return ops.count(), "count()"
    f, k = _pred(g)
    return ops.count(f), "count(%s)" % k


@entry("sum", "cold_ok uses_callbacks")
def _(g: Gen) -> tuple:
    if g.r.random() < 0.3:
        return ops.sum(), "sum()"
    return ops.sum(g.fn("key_mapper", R.num)), "sum(num)"


@entry("average", "cold_ok uses_callbacks")
def _(g: Gen) -> tuple:
    if g.r.random() < 0.3:
        return ops.average(), "average()"
    return ops.average(g.fn("key_mapper", R.num)), "average(num)"


@entry("min", "cold_ok uses_callbacks")
def _(g: Gen) -> tuple:
    if g.r.random() < 0.3:
        return ops.min(), "min()"
    f, k = _subcmp(g)
    return ops.min(f), "min(%s)" % k


@entry("max", "cold_ok uses_callbacks")
def _(g: Gen) -> tuple:
    if g.r.random() < 0.3:
        return ops.max(), "max()"
    f, k = _subcmp(g)
    return ops.max(f), "max(%s)" % k


@entry("min_by", "cold_ok uses_callbacks")
def _(g: Gen) -> tuple:
    kf, kk = _key(g)
    if g.r.random() < 0.5:
        return ops.min_by(kf), "min_by(%s)" % kk
    cf, ck = _subcmp(g)
    return ops.min_by(kf, cf), "min_by(%s,%s)" % (kk, ck)


@entry("max_by", "cold_ok uses_callbacks")
def _(g: Gen) -> tuple:
    kf, kk = _key(g)
    if g.r.random() < 0.5:
        return ops.max_by(kf), "max_by(%s)" % kk
    cf, ck = _subcmp(g)
    return ops.max_by(kf, cf), "max_by(%s,%s)" % (kk, ck)


@entry("some", "cold_ok early uses_callbacks")
def _(g: Gen) -> tuple:
    if g.r.random() < 0.4:
        return ops.some(), "some()"
    f, k = _pred(g)
    return ops.some(f), "some(%s)" % k


@entry("all", "cold_ok early uses_callbacks")
def _(g: Gen) -> tuple:
    f, k = _pred(g)
    return ops.all(f), "all(%s)" % k


@entry("contains", "cold_ok early uses_callbacks")
def _(g: Gen) -> tuple:
    v = g.r.choice([0, 1, 2, None, 7])
    if g.r.random() < 0.5:
        return ops.contains(v), "contains(%r)" % (v,)
    f, k = _cmp(g)
    return ops.contains(v, f), "contains(%r,%s)" % (v, k)


@entry("is_empty", "cold_ok early agnostic")
def _(g: Gen) -> tuple:
    return ops.is_empty(), "is_empty()"


@entry("to_list", "cold_ok")
def _(g: Gen) -> tuple:
    return ops.to_list(), "to_list()"


@entry("to_iterable", "cold_ok")
def _(g: Gen) -> tuple:
    return ops.to_iterable(), "to_iterable()"


@entry("to_set", "cold_ok")
def _(g: Gen) -> tuple:
    return ops.compose(ops.map(R.key_repr), ops.to_set()), "repr|to_set()"


@entry("to_dict", "cold_ok uses_callbacks")
def _(g: Gen) -> tuple:
    kf, kk = _key(g)
    if g.r.random() < 0.5:
        return ops.to_dict(kf), "to_dict(%s)" % kk
    ef, ek = _mapper(g, "element_mapper")
    return ops.to_dict(kf, ef), "to_dict(%s,%s)" % (kk, ek)


@entry("sequence_equal", "cold_ok early aux inner uses_callbacks")
def _(g: Gen) -> tuple:
    s = g.src("second")
    if g.r.random() < 0.5:
        return ops.sequence_equal(s), "sequence_equal(%s)" % s.name
    f, k = _cmp(g)
    return ops.sequence_equal(s, f), "sequence_equal(%s,%s)" % (s.name, k)


@entry("sequence_equal_iterable", "cold_ok early")
def _(g: Gen) -> tuple:
    xs = [g.r.randint(0, 3) for _ in range(g.r.randint(0, 3))]
    return ops.sequence_equal(xs), "sequence_equal(%r)" % (xs,)


# ---- combinators ----------------------------------------------------------------------------------

def _others(g: Gen, role: str) -> list:
    return [g.src(role) for _ in range(g.r.choice([1, 1, 2]))]


def _names(xs: list) -> str:
    return ",".join(x.name for x in xs)


@entry("merge", "cold_ok inner aux")
def _(g: Gen) -> tuple:
    xs = _others(g, "merged")
    return ops.merge(*xs), "merge(%s)" % _names(xs)


@entry("concat", "cold_ok inner")
def _(g: Gen) -> tuple:
    xs = _others(g, "concatenated")
    return ops.concat(*xs), "concat(%s)" % _names(xs)


@entry("zip", "cold_ok inner aux early")
def _(g: Gen) -> tuple:
    xs = _others(g, "zipped")
    return ops.zip(*xs), "zip(%s)" % _names(xs)


@entry("combine_latest", "cold_ok inner aux")
def _(g: Gen) -> tuple:
    xs = _others(g, "combined")
    return ops.combine_latest(*xs), "combine_latest(%s)" % _names(xs)


@entry("with_latest_from", "cold_ok inner aux")
def _(g: Gen) -> tuple:
    xs = _others(g, "latest")
    return ops.with_latest_from(*xs), "with_latest_from(%s)" % _names(xs)


@entry("amb", "cold_ok inner aux early")
def _(g: Gen) -> tuple:
    s = g.src("amb")
    return ops.amb(s), "amb(%s)" % s.name


@entry("fork_join", "cold_ok inner aux")
def _(g: Gen) -> tuple:
    xs = _others(g, "joined")
    return ops.fork_join(*xs), "fork_join(%s)" % _names(xs)


@entry("flat_map", "cold_ok inner uses_callbacks")
def _(g: Gen) -> tuple:
    f, d = _inner_mapper(g)
    return ops.flat_map(f), "flat_map(%s)" % d


@entry("flat_map_indexed", "cold_ok inner uses_callbacks")
def _(g: Gen) -> tuple:
    f, d = _inner_mapper(g, "mapper_indexed")
    return ops.flat_map_indexed(f), "flat_map_indexed(%s)" % d


@entry("flat_map_observable", "cold_ok inner")
def _(g: Gen) -> tuple:
    s = g.src("inner")
    return ops.flat_map(s), "flat_map(%s)" % s.name


@entry("concat_map", "cold_ok inner uses_callbacks")
def _(g: Gen) -> tuple:
    f, d = _inner_mapper(g, "project")
    return ops.concat_map(f), "concat_map(%s)" % d


@entry("switch_map", "cold_ok inner uses_callbacks")
def _(g: Gen) -> tuple:
    f, d = _inner_mapper(g, "project")
    return ops.switch_map(f), "switch_map(%s)" % d


@entry("switch_map_indexed", "cold_ok inner uses_callbacks")
def _(g: Gen) -> tuple:
    f, d = _inner_mapper(g, "project")
    return ops.switch_map_indexed(f), "switch_map_indexed(%s)" % d


@entry("flat_map_latest", "cold_ok inner uses_callbacks")
def _(g: Gen) -> tuple:
    f, d = _inner_mapper(g)
    return ops.flat_map_latest(f), "flat_map_latest(%s)" % d


@entry("map_merge_all", "cold_ok inner uses_callbacks")
def _(g: Gen) -> tuple:
    f, d = _inner_mapper(g)
    return ops.compose(ops.map(f), ops.merge_all()), "map(%s)|merge_all" % d


@entry("map_switch_latest", "cold_ok inner uses_callbacks")
def _(g: Gen) -> tuple:
    f, d = _inner_mapper(g)
    return ops.compose(ops.map(f), ops.switch_latest()), "map(%s)|switch_latest" % d


@entry("map_merge_max_concurrent", "cold_ok inner uses_callbacks")
def _(g: Gen) -> tuple:
    f, d = _inner_mapper(g)
    n = g.r.choice([1, 1, 2])
    return ops.compose(ops.map(f), ops.merge(max_concurrent=n)), "map(%s)|merge(max_concurrent=%d)" % (d, n)


@entry("map_exclusive", "cold_ok inner uses_callbacks")
def _(g: Gen) -> tuple:
    f, d = _inner_mapper(g)
    return ops.compose(ops.map(f), ops.exclusive()), "map(%s)|exclusive" % d


@entry("expand", "cold_ok inner uses_callbacks")
def _(g: Gen) -> tuple:
    f, d = _inner_mapper(g, "mapper", n=2, limit=g.r.choice([1, 2, 3]))
    return ops.expand(f), "expand(%s)" % d


# flatteners (only after a nested entry)
@entry("merge_all", "cold_ok flatten inner")
def _(g: Gen) -> tuple:
    return ops.merge_all(), "merge_all()"


@entry("switch_latest", "cold_ok flatten inner")
def _(g: Gen) -> tuple:
    return ops.switch_latest(), "switch_latest()"


@entry("exclusive", "cold_ok flatten inner")
def _(g: Gen) -> tuple:
    return ops.exclusive(), "exclusive()"


@entry("merge_max_concurrent", "cold_ok flatten inner")
def _(g: Gen) -> tuple:
    n = g.r.choice([1, 1, 2])
    return ops.merge(max_concurrent=n), "merge(max_concurrent=%d)" % n


@entry("flat_map_window", "cold_ok flatten inner uses_callbacks")
def _(g: Gen) -> tuple:
    which = g.r.choice(["ident", "to_list", "count"])
    impl = {"ident": lambda w: w, "to_list": lambda w: w.pipe(ops.to_list()), "count": lambda w: w.pipe(ops.count())}[which]
    return ops.flat_map(g.fn("mapper", impl)), "flat_map(window->%s)" % which


@entry("concat_map_window", "cold_ok flatten inner uses_callbacks")
def _(g: Gen) -> tuple:
    return ops.concat_map(g.fn("project", lambda w: w.pipe(ops.to_list()))), "concat_map(window->to_list)"


# ---- time -----------------------------------------------------------------------------------------

@entry("delay", "cold_ok time agnostic")
def _(g: Gen) -> tuple:
    d = g.dur()
    return ops.delay(g.rel(d), g.sched()), "delay(%s)" % d


@entry("debounce", "cold_ok time agnostic")
def _(g: Gen) -> tuple:
    d = g.dur((0, 5, 10))
    return ops.debounce(g.rel(d), g.sched()), "debounce(%s)" % d


@entry("throttle_with_timeout", "cold_ok time agnostic")
def _(g: Gen) -> tuple:
    d = g.dur((5, 10))
    return ops.throttle_with_timeout(g.rel(d), g.sched()), "throttle_with_timeout(%s)" % d


@entry("throttle_first", "cold_ok time agnostic")
def _(g: Gen) -> tuple:
    d = g.dur((5, 10, 15))
    return ops.throttle_first(g.rel(d), g.sched()), "throttle_first(%s)" % d


@entry("sample", "cold_ok time agnostic")
def _(g: Gen) -> tuple:
    d = g.dur((5, 10, 15))
    return ops.sample(g.rel(d), g.sched()), "sample(%s)" % d


@entry("sample_observable", "cold_ok aux agnostic")
def _(g: Gen) -> tuple:
    s = g.src("sampler")
    return ops.sample(s), "sample(%s)" % s.name


@entry("timeout", "cold_ok time agnostic early")
def _(g: Gen) -> tuple:
    d = g.dur((5, 10, 20))
    return ops.timeout(g.rel(d), None, g.sched()), "timeout(%s)" % d


@entry("timeout_other", "cold_ok time agnostic inner")
def _(g: Gen) -> tuple:
    d = g.dur((5, 10, 20))
    s = g.src("other")
    return ops.timeout(g.rel(d), s, g.sched()), "timeout(%s,other=%s)" % (d, s.name)


@entry("timestamp", "cold_ok time")
def _(g: Gen) -> tuple:
    return ops.timestamp(g.sched()), "timestamp()"


@entry("time_interval", "cold_ok time")
def _(g: Gen) -> tuple:
    return ops.time_interval(g.sched()), "time_interval()"


@entry("delay_subscription", "cold_ok time agnostic")
def _(g: Gen) -> tuple:
    d = g.dur((0, 5, 10))
    return ops.delay_subscription(g.rel(d), g.sched()), "delay_subscription(%s)" % d


@entry("take_with_time", "cold_ok time agnostic early")
def _(g: Gen) -> tuple:
    d = g.dur((0, 10, 20, 30))
    return ops.take_with_time(g.rel(d), g.sched()), "take_with_time(%s)" % d


@entry("skip_with_time", "cold_ok time agnostic")
def _(g: Gen) -> tuple:
    d = g.dur((0, 10, 20))
    return ops.skip_with_time(g.rel(d), g.sched()), "skip_with_time(%s)" % d


@entry("take_last_with_time", "cold_ok time agnostic")
def _(g: Gen) -> tuple:
    d = g.dur((0, 10, 20))
    return ops.take_last_with_time(g.rel(d), g.sched()), "take_last_with_time(%s)" % d


@entry("skip_last_with_time", "cold_ok time agnostic")
def _(g: Gen) -> tuple:
    d = g.dur((0, 10, 20))
    return ops.skip_last_with_time(g.rel(d), g.sched()), "skip_last_with_time(%s)" % d


@entry("take_until_with_time", "cold_ok time agnostic early")
def _(g: Gen) -> tuple:
    d = g.dur((0, 10, 20, 30))
    if g.r.random() < 0.5 and g.lab.clock_kind == "dt":
        return ops.take_until_with_time(g.abs(SUB_AT + d), g.sched()), "take_until_with_time(abs %s)" % (SUB_AT + d)
    return ops.take_until_with_time(g.rel(d), g.sched()), "take_until_with_time(%s)" % d


@entry("skip_until_with_time", "cold_ok time agnostic")
def _(g: Gen) -> tuple:
    d = g.dur((0, 10, 20))
    if g.r.random() < 0.5 and g.lab.clock_kind == "dt":
        return ops.skip_until_with_time(g.abs(SUB_AT + d), g.sched()), "skip_until_with_time(abs %s)" % (SUB_AT + d)
    return ops.skip_until_with_time(g.rel(d), g.sched()), "skip_until_with_time(%s)" % d


@entry("delay_with_mapper", "cold_ok aux inner uses_callbacks")
def _(g: Gen) -> tuple:
    f, d = _inner_mapper(g, "delay_duration_mapper")
    if g.r.random() < 0.5:
        return ops.delay_with_mapper(None, f), "delay_with_mapper(%s)" % d
    s = g.src("subscription_delay")
    return ops.delay_with_mapper(s, f), "delay_with_mapper(%s,%s)" % (s.name, d)


@entry("throttle_with_mapper", "cold_ok aux inner uses_callbacks")
def _(g: Gen) -> tuple:
    f, d = _inner_mapper(g, "throttle_duration_mapper")
    return ops.throttle_with_mapper(f), "throttle_with_mapper(%s)" % d


@entry("timeout_with_mapper", "cold_ok aux inner uses_callbacks early")
def _(g: Gen) -> tuple:
    f, d = _inner_mapper(g, "timeout_duration_mapper")
    first = g.src("first_timeout")
    if g.r.random() < 0.5:
        return ops.timeout_with_mapper(first, f), "timeout_with_mapper(%s,%s)" % (first.name, d)
    other = g.src("other")
    return ops.timeout_with_mapper(first, f, other), "timeout_with_mapper(%s,%s,other=%s)" % (first.name, d, other.name)


# ---- windows / buffers / groups --------------------------------------------------------------------

def _count_skip(g: Gen) -> tuple:
    c = g.r.choice([1, 2, 2, 3])
    s = g.r.choice([None, 1, 2, 3])
    return c, s


@entry("window_with_count", "cold_ok nested")
def _(g: Gen) -> tuple:
    c, s = _count_skip(g)
    return ops.window_with_count(c, s), "window_with_count(%s,%s)" % (c, s)


@entry("window_with_time", "cold_ok nested time")
def _(g: Gen) -> tuple:
    a = g.dur((5, 10, 15))
    b = g.r.choice([None, 5, 10, 15])
    return ops.window_with_time(g.rel(a), None if b is None else g.rel(b), g.sched()), "window_with_time(%s,%s)" % (a, b)


@entry("window_with_time_or_count", "cold_ok nested time")
def _(g: Gen) -> tuple:
    a = g.dur((5, 10, 15))
    c = g.r.choice([1, 2, 3])
    return ops.window_with_time_or_count(g.rel(a), c, g.sched()), "window_with_time_or_count(%s,%s)" % (a, c)


@entry("window", "cold_ok nested aux")
def _(g: Gen) -> tuple:
    s = g.src("boundary")
    return ops.window(s), "window(%s)" % s.name


@entry("window_when", "cold_ok nested aux uses_callbacks")
def _(g: Gen) -> tuple:
    f, d = _inner_mapper(g, "closing_mapper", delayed=True)
    return ops.window_when(f), "window_when(%s)" % d


@entry("window_toggle", "cold_ok nested aux uses_callbacks")
def _(g: Gen) -> tuple:
    o = g.src("openings")
    f, d = _inner_mapper(g, "closing_mapper")
    return ops.window_toggle(o, f), "window_toggle(%s,%s)" % (o.name, d)


@entry("buffer_with_count", "cold_ok")
def _(g: Gen) -> tuple:
    c, s = _count_skip(g)
    return ops.buffer_with_count(c, s), "buffer_with_count(%s,%s)" % (c, s)


@entry("buffer_with_time", "cold_ok time")
def _(g: Gen) -> tuple:
    a = g.dur((5, 10, 15))
    b = g.r.choice([None, 5, 10, 15])
    return ops.buffer_with_time(g.rel(a), None if b is None else g.rel(b), g.sched()), "buffer_with_time(%s,%s)" % (a, b)


@entry("buffer_with_time_or_count", "cold_ok time")
def _(g: Gen) -> tuple:
    a = g.dur((5, 10, 15))
    c = g.r.choice([1, 2, 3])
    return ops.buffer_with_time_or_count(g.rel(a), c, g.sched()), "buffer_with_time_or_count(%s,%s)" % (a, c)


@entry("buffer", "cold_ok aux")
def _(g: Gen) -> tuple:
    s = g.src("boundary")
    return ops.buffer(s), "buffer(%s)" % s.name


@entry("buffer_when", "cold_ok aux uses_callbacks")
def _(g: Gen) -> tuple:
    f, d = _inner_mapper(g, "closing_mapper", delayed=True)
    return ops.buffer_when(f), "buffer_when(%s)" % d


@entry("buffer_toggle", "cold_ok aux uses_callbacks")
def _(g: Gen) -> tuple:
    o = g.src("openings")
    f, d = _inner_mapper(g, "closing_mapper")
    return ops.buffer_toggle(o, f), "buffer_toggle(%s,%s)" % (o.name, d)


@entry("group_by", "cold_ok nested uses_callbacks")
def _(g: Gen) -> tuple:
    kf, kk = _key(g)
    c = g.r.random()
    if c < 0.4:
        return ops.group_by(kf), "group_by(%s)" % kk
    ef, ek = _mapper(g, "element_mapper")
    if c < 0.7:
        return ops.group_by(kf, ef), "group_by(%s,%s)" % (kk, ek)
    return (ops.group_by(kf, ef, g.fn("subject_mapper", lambda: ReplaySubject())),
            "group_by(%s,%s,ReplaySubject)" % (kk, ek))


@entry("group_by_until", "cold_ok nested aux uses_callbacks")
def _(g: Gen) -> tuple:
    kf, kk = _key(g)
    ef, ek = _mapper(g, "element_mapper")
    df, dd = _inner_mapper(g, "duration_mapper")
    return ops.group_by_until(kf, ef, df), "group_by_until(%s,%s,%s)" % (kk, ek, dd)


@entry("group_by_until_derived", "cold_ok nested uses_callbacks")
def _(g: Gen) -> tuple:
    # the duration of a group is derived from the group itself (expire after m elements / never): the idiom behind
    # "close a group that has been idle", which makes the duration subscription a subscriber of the group
    kf, kk = _key(g)
    m = g.r.choice([1, 2, 3, None])
    df = g.fn("duration_mapper", (lambda grp: grp.pipe(ops.ignore_elements())) if m is None else (lambda grp: grp.pipe(ops.skip(m - 1))))
    return ops.group_by_until(kf, None, df), "group_by_until(%s,None,group->%s)" % (kk, "ignore_elements" if m is None else "skip(%d)" % (m - 1))


@entry("join", "cold_ok aux inner uses_callbacks")
def _(g: Gen) -> tuple:
    right = g.src("right")
    lf, ld = _inner_mapper(g, "left_duration_mapper")
    rf, rd = _inner_mapper(g, "right_duration_mapper")
    return ops.join(right, lf, rf), "join(%s,%s,%s)" % (right.name, ld, rd)


@entry("group_join", "cold_ok aux inner nested uses_callbacks")
def _(g: Gen) -> tuple:
    right = g.src("right")
    lf, ld = _inner_mapper(g, "left_duration_mapper")
    rf, rd = _inner_mapper(g, "right_duration_mapper")
    return (ops.compose(ops.group_join(right, lf, rf), ops.map(lambda t: t[1])),
            "group_join(%s,%s,%s)|window-only" % (right.name, ld, rd))


# ---- error handling / repetition -----------------------------------------------------------------

@entry("catch", "cold_ok absorbs_error inner")
def _(g: Gen) -> tuple:
    s = g.src("handler")
    return ops.catch(s), "catch(%s)" % s.name


@entry("catch_handler", "cold_ok absorbs_error inner uses_callbacks")
def _(g: Gen) -> tuple:
    f, d = _inner_mapper(g, "handler")
    return ops.catch(f), "catch(%s)" % d


@entry("retry", "cold_ok absorbs_error resub")
def _(g: Gen) -> tuple:
    n = g.r.choice([1, 2, 3])
    return ops.retry(n), "retry(%d)" % n


@entry("on_error_resume_next", "cold_ok absorbs_error inner")
def _(g: Gen) -> tuple:
    s = g.src("second")
    return ops.on_error_resume_next(s), "on_error_resume_next(%s)" % s.name


@entry("on_error_resume_next_factory", "absorbs_error inner uses_callbacks")
def _(g: Gen) -> tuple:
    f, d = _inner_mapper(g, "factory", n=1)
    return (lambda source: rx.on_error_resume_next(source, f)), "rx.on_error_resume_next(source,%s)" % d


@entry("repeat", "cold_ok resub")
def _(g: Gen) -> tuple:
    n = g.r.choice([0, 1, 2, 3])
    return ops.repeat(n), "repeat(%d)" % n


@entry("while_do", "resub uses_callbacks")
def _(g: Gen) -> tuple:
    n = g.r.choice([0, 1, 2])
    cnt = [0]

    def cond(_: Any) -> bool:
        cnt[0] += 1
        return cnt[0] <= n

    return ops.while_do(g.fn("condition", cond)), "while_do(first %d)" % n


@entry("do_while", "resub uses_callbacks")
def _(g: Gen) -> tuple:
    n = g.r.choice([0, 1, 2])
    cnt = [0]

    def cond(_: Any) -> bool:
        cnt[0] += 1
        return cnt[0] <= n

    return ops.do_while(g.fn("condition", cond)), "do_while(first %d)" % n


@entry("take_until", "cold_ok aux early agnostic")
def _(g: Gen) -> tuple:
    s = g.src("trigger")
    return ops.take_until(s), "take_until(%s)" % s.name


@entry("skip_until", "cold_ok aux agnostic")
def _(g: Gen) -> tuple:
    s = g.src("trigger")
    return ops.skip_until(s), "skip_until(%s)" % s.name


# ---- multicast ------------------------------------------------------------------------------------

@entry("share", "multicast agnostic")
def _(g: Gen) -> tuple:
    return ops.share(), "share()"


@entry("publish_ref_count", "multicast agnostic")
def _(g: Gen) -> tuple:
    return ops.compose(ops.publish(), ops.ref_count()), "publish|ref_count"


@entry("replay_ref_count", "multicast agnostic time")
def _(g: Gen) -> tuple:
    b = g.r.choice([None, 1, 2])
    w = g.r.choice([None, None, 10])
    return (ops.compose(ops.replay(buffer_size=b, window=None if w is None else g.rel(w), scheduler=g.ts), ops.ref_count()),
            "replay(%s,%s)|ref_count" % (b, w))


@entry("publish_value_ref_count", "multicast")
def _(g: Gen) -> tuple:
    return ops.compose(ops.publish_value(-1), ops.ref_count()), "publish_value(-1)|ref_count"


@entry("publish_mapper", "multicast uses_callbacks inner")
def _(g: Gen) -> tuple:
    which = g.r.choice(["merge_self", "zip_skip", "ident"])
    impl = {"merge_self": lambda s: s.pipe(ops.merge(s)), "zip_skip": lambda s: s.pipe(ops.zip(s.pipe(ops.skip(1)))),
            "ident": lambda s: s}[which]
    return ops.publish(g.fn("mapper", impl)), "publish(mapper=%s)" % which


@entry("replay_mapper", "multicast uses_callbacks inner")
def _(g: Gen) -> tuple:
    return (ops.replay(buffer_size=2, mapper=g.fn("mapper", lambda s: s.pipe(ops.concat(s))), scheduler=g.ts),
            "replay(2,mapper=concat_self)")


@entry("multicast_factory", "multicast uses_callbacks inner")
def _(g: Gen) -> tuple:
    return (ops.multicast(subject_factory=g.fn("subject_factory", lambda sch=None: Subject()),
                          mapper=g.fn("mapper", lambda s: s.pipe(ops.merge(s)))),
            "multicast(subject_factory,mapper=merge_self)")


# ---- scheduling -----------------------------------------------------------------------------------

@entry("observe_on", "cold_ok time agnostic")
def _(g: Gen) -> tuple:
    return ops.observe_on(g.ts), "observe_on(ts)"


@entry("subscribe_on", "cold_ok time agnostic sub_on")
def _(g: Gen) -> tuple:
    return ops.subscribe_on(g.ts), "subscribe_on(ts)"


def names(include: str = "", exclude: str = "") -> list[str]:
    inc, exc = set(include.split()), set(exclude.split())
    return [e.name for e in CATALOG if inc <= e.flags and not (exc & e.flags)]
