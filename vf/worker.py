"""Child process: runs one unit (or one replay) of a property module and dumps a UnitResult."""
from __future__ import annotations

import faulthandler
import importlib
import json
import sys
import traceback

from .common import UnitResult


def main(argv: list[str]) -> int:
    pid, mode, inp, outp = argv
    faulthandler.enable()
    with open(inp) as f:
        payload = json.load(f)
    sys.setrecursionlimit(3000)
    if (payload.get("unit") or {}).get("dsched") or payload.get("dsched"):
        # units that run under the deterministic thread scheduler: instrument threading BEFORE anything imports reactivex
        from . import dsched
        dsched.install(())
    mod = importlib.import_module("vf.props." + pid.lower())
    res = UnitResult()
    try:
        if mode == "unit":
            mod.run_unit(payload["unit"], res)
        else:
            mod.replay(payload, res)
    except BaseException:
        res.inconclusive.append("harness exception: " + traceback.format_exc()[-2500:])
    with open(outp, "w") as f:
        json.dump(res.to_json(), f, default=repr)
    return 0


if __name__ == "__main__":
    sys.exit(main(sys.argv[1:]))
