#!/usr/bin/env python3
"""Regenerates the seeded-changes table of DESIGN.md §10 from /verif/seeded/*/meta.json"""
import glob, json, os, re
rows = []
for f in sorted(glob.glob('/verif/seeded/*/meta.json')):
    m = json.load(open(f))
    name = os.path.basename(os.path.dirname(f))
    files = ", ".join(os.path.basename(x) for x in m.get("files_changed", []))
    note = m.get("summary") or ""
    if not note:
        txt = m.get("needs_to_manifest", "")
        note = re.sub(r"\s+", " ", txt)[:160]
    checks = m.get("checks", {})
    caught = "; ".join("%s %s" % (k, "caught (%s)" % ", ".join(v["mechs"][:2]) if v["exit"] == 1 else ("MISSED" if v["exit"] == 0 else "inconclusive")) for k, v in checks.items())
    status = "confirmed" if m.get("confirmed") else "not confirmed"
    if m.get("out_of_scope"):
        status += "; " + m["out_of_scope"]
    rows.append("| %s | %s | %s | %s | %s |" % (name, files, status, caught or "-", note.replace("|", "/")))
table = "| Seed | Files | Status | Checks | What it needs |\n|---|---|---|---|---|\n" + "\n".join(rows)
p = '/verif/DESIGN.md'
s = open(p).read()
if "SEEDTABLE" in s:
    s = s.replace("SEEDTABLE", "<!-- seeds:begin -->\n" + table + "\n<!-- seeds:end -->")
else:
    s = re.sub(r"<!-- seeds:begin -->.*<!-- seeds:end -->", "<!-- seeds:begin -->\n" + table.replace("\\", "\\\\") + "\n<!-- seeds:end -->", s, flags=re.S)
open(p, 'w').write(s)
print(len(rows), "seeds")
