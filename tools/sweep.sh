#!/bin/bash
# tools/sweep.sh <tier> <seed> [seed...] : runs every claimed check for each seed, one summary line per run
TIER=$1; shift
cd "$(dirname "$0")/.."
IDS=$(python3 -c "import json;print(' '.join(c['property_id'] for c in json.load(open('MANIFEST.json'))['checks']))")
for S in "$@"; do
  for ID in $IDS; do
    OUT=$(VERIF_SEED=$S ./check $ID $TIER 2>&1); RC=$?
    LINE=$(echo "$OUT" | grep -E "^C[0-9]+ (HELD|VIOLATED|INCONCLUSIVE)" | head -1)
    echo "seed=$S rc=$RC $LINE"
    if [ $RC -ne 0 ]; then echo "$OUT" | grep -E "mech=|inconclusive" | cut -c1-400 | sort | uniq -c | sort -rn | head -6; fi
  done
done
