#!/usr/bin/env python3
"""tools/seed_sweep.py [--tier quick]: final pass over /verif/seeded/*: every change is REALLY applied to /repo (git apply, 3-way if the
repository moved on), the check(s) recorded as catching it are run from /verif against /repo, and /repo is restored
(git checkout -- .). Prints one line per seed; exit 1 if a seed that is recorded as caught is not caught any more.
Must not run while anything else uses /repo."""
import glob, json, os, subprocess, sys
tier = sys.argv[sys.argv.index("--tier") + 1] if "--tier" in sys.argv else "quick"
only = [a for a in sys.argv[1:] if a.startswith("C")]
bad = 0
assert subprocess.run(["git", "-C", "/repo", "status", "--porcelain"], capture_output=True, text=True).stdout.strip() == "", "/repo is not clean"
for mp in sorted(glob.glob("/verif/seeded/*/meta.json")):
    d = os.path.dirname(mp)
    name = os.path.basename(d)
    if only and not any(name.startswith(o) for o in only):
        continue
    m = json.load(open(mp))
    caught = [k for k, v in m.get("checks", {}).items() if v.get("caught") or v.get("exit") == 1]
    if m.get("out_of_scope") and not caught:
        print("%-8s out of scope (not claimed)" % name)
        continue
    patch = os.path.join(d, "patch.diff")
    ap = subprocess.run(["git", "-C", "/repo", "apply", patch], capture_output=True, text=True)
    if ap.returncode != 0:
        ap = subprocess.run(["git", "-C", "/repo", "apply", "--3way", patch], capture_output=True, text=True)
        subprocess.run(["git", "-C", "/repo", "reset", "-q"])
    if ap.returncode != 0:
        print("%-8s PATCH DOES NOT APPLY" % name)
        subprocess.run(["git", "-C", "/repo", "checkout", "--", "."])
        bad += 1
        continue
    try:
        got = None
        for ck in caught[:2]:
            p = subprocess.run(["/verif/check", ck, tier], capture_output=True, text=True, cwd="/verif",
                               env=dict(os.environ, VERIF_OUT_DIR="/tmp/seed_sweep_out", VERIF_EVID_DIR="/tmp/seed_sweep_evid"))
            if p.returncode == 1:
                got = ck
                break
        print("%-8s %s" % (name, ("caught by " + got) if got else "NOT CAUGHT (recorded: %s)" % caught), flush=True)
        if not got:
            bad += 1
    finally:
        subprocess.run(["git", "-C", "/repo", "checkout", "--", "."])
sys.exit(1 if bad else 0)
