#!/bin/bash
# tools/mutscan_all.sh [max-per-property]: mutation scan of every claimed check (see tools/mutscan.py); prints survivors
cd "$(dirname "$0")/.."
MAX=${1:-40}
IDS=$(python3 -c "import json;print(' '.join(c['property_id'] for c in json.load(open('MANIFEST.json'))['checks']))")
for ID in $IDS; do
  echo "=== $ID"
  python3 tools/mutscan.py $ID --max $MAX --jobs 4 --tests 2>&1 | grep -E "^SURVIVED|^inconclusive|^check-timeout|^SUMMARY"
done
