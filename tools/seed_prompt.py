#!/usr/bin/env python3
"""prints the prompt for an independent mutation-seeding agent for property <ID> (round <R>)"""
import json, sys
pid = sys.argv[1]; rnd = sys.argv[2] if len(sys.argv) > 2 else "1"
hint = sys.argv[3] if len(sys.argv) > 3 else ""
p = next(json.loads(l) for l in open('/verif/properties.jsonl') if json.loads(l)['id'] == pid)
d = "/tmp/seed/%s_r%s" % (pid, rnd); wt = d + "/wt"
print(f"""You are given a clean git worktree of the Python library ReactiveX/RxPY at {wt} (pure Python; interpreter /venv/bin/python 3.12). Always run things with PYTHONPATH={wt} so that THIS copy is imported, and verify once with: PYTHONPATH={wt} /venv/bin/python -c "import reactivex; print(reactivex.__file__)". Work only inside {d}. Do not read, list or use anything under /verif or /repo.

A property that users of the library rely on:
  Title: {p['title']}
  Statement: {p['statement']}
  Scope: {p['quantifier']['text']}

Task: make a small source change to the library (files under {wt}/reactivex) that BREAKS this property while
 (1) the library still imports and
 (2) the repository's existing test suite still passes completely with your change applied:
       cd {wt} && PYTHONPATH={wt} /venv/bin/python -m pytest -q -p no:cacheprovider -x tests      (about 10-20 s)
 (3) the breakage needs something specific to manifest: a particular interleaving of threads, a fault or cancellation at a particular point, a multi-step sequence of operations, an unusual input or parameter value (boundary, falsy value, tie), or two cooperating sites that each look fine alone. It must NOT be something that ordinary use would expose at once.
It should look like a plausible regression a maintainer could introduce (refactoring slip, off-by-one at a boundary, dropped or narrowed lock, state moved to the wrong scope, truthiness test instead of identity test, lost cancellation, wrong comparison operator), not sabotage: no dead code, no environment checks, no randomness, no magic constants keyed to your demo. Keep the diff small (typically 1-10 lines). {hint}

Deliverables, all in {d}:
  patch.diff  - output of `git -C {wt} diff`
  demo.py     - a small standalone program that takes the library from PYTHONPATH: exit code 0 on the unmodified library, non-zero (with a short message saying what went wrong) with your change; deterministic (if threads are needed, force the interleaving with events/barriers or patched hooks rather than hoping for timing); finishes in < 20 s
  notes.md    - 5-12 lines: what you changed, why it breaks the property, exactly what is needed for it to manifest, and the commands you ran with their results: the pytest summary line with the change applied, demo.py exit codes with and without the change (toggle with `git -C {wt} apply -R {d}/patch.diff` / `git -C {wt} apply {d}/patch.diff`; do NOT use git stash: the stash is shared between worktrees of other people working in parallel)
Leave the worktree with your change applied. Your final message should be the content of notes.md.""")
