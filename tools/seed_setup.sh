#!/bin/bash
# tools/seed_setup.sh <ID> [round]: fresh detached worktree of /repo HEAD for a seeding agent
ID=$1; R=${2:-1}; D=/tmp/seed/${ID}_r${R}
rm -rf $D; mkdir -p $D
git -C /repo worktree add --detach $D/wt HEAD >/dev/null 2>&1 && echo $D/wt
