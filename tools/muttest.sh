#!/bin/bash
# tools/muttest.sh <ID> <file-relative-to-repo> <python-expr old> <new>  : runs ./check ID quick against a mutated scratch copy
ID=$1; FILE=$2; OLD=$3; NEW=$4; TIER=${5:-quick}
D=$(mktemp -d /tmp/mut_${ID}_XXXX)
cp -r /repo/reactivex $D/reactivex
/venv/bin/python - "$D/$FILE" "$OLD" "$NEW" <<'P'
import sys
p,old,new=sys.argv[1:4]
s=open(p).read()
if old not in s: print("MUTATION TEXT NOT FOUND"); sys.exit(3)
open(p,'w').write(s.replace(old,new,1))
P
[ $? -eq 3 ] && { rm -rf $D; exit 3; }
cd /verif && VERIF_EVID_DIR=$D/evid VERIF_OUT_DIR=$D/out VERIF_REPO=$D VERIF_UNIT_TIMEOUT=${MUT_TIMEOUT:-300} ./check $ID $TIER 2>&1 | grep -E "^C[0-9]+ (HELD|VIOLATED|INCONCLUSIVE)|mech=" | cut -c1-220 | sort | uniq -c | sort -rn | head -${MUT_LINES:-6}
rm -rf $D
