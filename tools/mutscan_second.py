#!/usr/bin/env python3
"""tools/mutscan_second.py <log> [--checks C01,C02,...]: second pass over the mutants that survived tools/mutscan_files.sh and
passed the repository's tests: each is rebuilt (file, line, description identify it) and run against a broad list of checks
(the catalog-driven ones see every operator). Prints which check kills it, or STILL-SURVIVES."""
import importlib.util, os, re, shutil, subprocess, sys
VERIF = os.path.dirname(os.path.dirname(os.path.abspath(__file__)))
spec = importlib.util.spec_from_file_location("mutscan", os.path.join(VERIF, "tools", "mutscan.py"))
src_txt = open(os.path.join(VERIF, "tools", "mutscan.py")).read().replace("\nmain()\n", "\n")
ns: dict = {}
exec(compile(src_txt, "mutscan", "exec"), ns)
log = sys.argv[1]
checks = "C01,C02,C03,C09,C05,C08,C04,C44,C39,C10,C11,C13,C18,C19".split(",")
if "--checks" in sys.argv:
    checks = sys.argv[sys.argv.index("--checks") + 1].split(",")
seen = set()
for line in open(log):
    m = re.match(r"SURVIVED\s+(\S+):(\d+) (.*?) tests=pass", line)
    if not m:
        continue
    f, ln, what = "reactivex/" + m.group(1), int(m.group(2)), m.group(3)
    if (f, ln, what) in seen:
        continue
    seen.add((f, ln, what))
    src, ms = ns["mutants_of"](os.path.join("/repo", f))
    mm = [x for x in ms if x["line"] == ln and x["what"] == what]
    if not mm:
        print("GONE          %s:%d %s" % (f, ln, what)); continue
    d = "/tmp/mutscan2/%d" % len(seen)
    shutil.rmtree(d, ignore_errors=True)
    shutil.copytree("/repo/reactivex", os.path.join(d, "reactivex"), ignore=shutil.ignore_patterns("__pycache__"))
    open(os.path.join(d, f), "w").write(ns["apply"](src, mm[0]))
    env = dict(os.environ, VERIF_REPO=d, VERIF_JOBS="8", VERIF_OUT_DIR=os.path.join(d, "out"), VERIF_EVID_DIR=os.path.join(d, "evid"), VERIF_UNIT_TIMEOUT="60")
    by = None
    for ck in checks:
        try:
            p = subprocess.run([os.path.join(VERIF, "check"), ck, "quick"], env=env, capture_output=True, text=True, timeout=300, cwd=VERIF)
        except subprocess.TimeoutExpired:
            continue
        if p.returncode == 1:
            by = ck
            break
    shutil.rmtree(d, ignore_errors=True)
    print("%-13s %s:%d %s | %s" % ("killed-by-" + by if by else "STILL-SURVIVES", f, ln, what, (mm[0].get("old_line") or "").strip()[:80]), flush=True)
