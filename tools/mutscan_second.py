#!/usr/bin/env python3
"""tools/mutscan_second.py <log> [--checks C01,C02,...]: second pass over the mutants that survived tools/mutscan_files.sh and
passed the repository's tests: each is rebuilt (file, line, description identify it) and run against a broad list of checks
(the catalog-driven ones see every operator). Prints which check kills it, or STILL-SURVIVES."""
import importlib.util, os, re, shutil, subprocess, sys
VERIF = os.path.dirname(os.path.dirname(os.path.abspath(__file__)))
spec = importlib.util.spec_from_file_location("mutscan", os.path.join(VERIF, "tools", "mutscan.py"))
src_txt = open(os.path.join(VERIF, "tools", "mutscan.py")).read().replace("\nmain()\n", "\n")
ns: dict = {"__file__": os.path.join(VERIF, "tools", "mutscan.py"), "__name__": "mutscan"}
exec(compile(src_txt, "mutscan", "exec"), ns)
log = sys.argv[1]
fixed_checks = None
if "--checks" in sys.argv:
    fixed_checks = sys.argv[sys.argv.index("--checks") + 1].split(",")


def checks_for(f: str) -> list:
    """which checks see code in this file (beyond the ones anchored in it): by area of the library"""
    if fixed_checks:
        return fixed_checks
    b = os.path.basename(f)
    if "/operators/" in f:
        cs = ["C05", "C06", "C08", "C09", "C01", "C02", "C03", "C04", "C44", "C39"]
        if any(k in b for k in ("time", "delay", "debounce", "throttle", "timeout", "sample", "window", "buffer")):
            cs = ["C15", "C16", "C17", "C18"] + cs
        if any(k in b for k in ("merge", "flatmap", "switch", "concat", "amb", "zip", "combine", "latest", "forkjoin", "join", "group", "partition", "catch", "retry", "repeat", "whiledo")):
            cs = ["C10", "C11", "C12", "C13", "C19", "C43"] + cs
        if any(k in b for k in ("publish", "replay", "refcount", "multicast", "connectable")):
            cs = ["C24"] + cs
        if any(k in b for k in ("observeon", "subscribeon", "tofuture", "do", "finally")):
            cs = ["C32", "C40", "C41"] + cs
        return cs
    if "/subject/" in f or "scheduledobserver" in b:
        return ["C20", "C21", "C22", "C23", "C24", "C32", "C19", "C14"]
    if "/scheduler/" in f or "/internal/priorityqueue" in f:
        return ["C28", "C29", "C30", "C31", "C33", "C34", "C35", "C36", "C42", "C25", "C32", "C37", "C14"]
    if "/disposable/" in f:
        return ["C25", "C26", "C27", "C02", "C03", "C12", "C19"]
    if "/observable/" in f:
        return ["C37", "C10", "C11", "C13", "C38", "C41", "C40", "C14", "C24", "C43", "C39", "C01", "C02", "C03", "C09", "C07"]
    if "/observer/" in f:
        return ["C01", "C02", "C03", "C20", "C32", "C40"]
    return ["C01", "C38", "C39", "C36"]
seen = set()
for line in open(log):
    m = re.match(r"SURVIVED\s+(\S+):(\d+) (.*?) tests=pass", line)
    if not m:
        continue
    f, ln, what = "reactivex/" + m.group(1), int(m.group(2)), m.group(3)
    if (f, ln, what) in seen:
        continue
    seen.add((f, ln, what))
    src, ms = ns["mutants_of"](os.path.join("/repo", f))
    mm = [x for x in ms if x["line"] == ln and x["what"] == what]
    if not mm:
        print("GONE          %s:%d %s" % (f, ln, what)); continue
    d = "/tmp/mutscan2/%d" % len(seen)
    shutil.rmtree(d, ignore_errors=True)
    shutil.copytree("/repo/reactivex", os.path.join(d, "reactivex"), ignore=shutil.ignore_patterns("__pycache__"))
    open(os.path.join(d, f), "w").write(ns["apply"](src, mm[0]))
    env = dict(os.environ, VERIF_REPO=d, VERIF_JOBS="8", VERIF_OUT_DIR=os.path.join(d, "out"), VERIF_EVID_DIR=os.path.join(d, "evid"), VERIF_UNIT_TIMEOUT="60")
    by = None
    for ck in checks_for(f):
        try:
            p = subprocess.run([os.path.join(VERIF, "check"), ck, "quick"], env=env, capture_output=True, text=True, timeout=300, cwd=VERIF)
        except subprocess.TimeoutExpired:
            continue
        if p.returncode == 1:
            by = ck
            break
    shutil.rmtree(d, ignore_errors=True)
    print("%-13s %s:%d %s | %s" % ("killed-by-" + by if by else "STILL-SURVIVES", f, ln, what, (mm[0].get("old_line") or "").strip()[:80]), flush=True)
