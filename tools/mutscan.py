#!/usr/bin/env python3
"""tools/mutscan.py <ID> [--files a.py,b.py] [--max N] [--jobs J] [--tier quick] [--seed S] [--tests]

Mutation scan of a check: generates small syntactic mutants (comparison operators, and/or, negated conditions, integer
constants, removed call statements, removed locks, removed `not`, += / -=) of the files a property is anchored in, puts each
into a scratch copy of /repo/reactivex under /tmp/mutscan (removed afterwards), and runs `./check <ID> <tier>` against it
(VERIF_REPO). Survivors are (optionally, --tests) run through the repository's own test suite: a mutant that passes the
tests AND the check is either equivalent or a hole in the check - the list is what a human triages.
Nothing here is part of a registered check; results go to out/mutscan/<ID>.jsonl."""
import ast, json, os, random, shutil, subprocess, sys, time
from concurrent.futures import ThreadPoolExecutor

VERIF = os.path.dirname(os.path.dirname(os.path.abspath(__file__)))
REPO = "/repo"
PY = "/venv/bin/python"
CMP = {ast.Lt: "<=", ast.LtE: "<", ast.Gt: ">=", ast.GtE: ">", ast.Eq: "!=", ast.NotEq: "==", ast.Is: "is not", ast.IsNot: "is"}
CMP_SRC = {ast.Lt: "<", ast.LtE: "<=", ast.Gt: ">", ast.GtE: ">=", ast.Eq: "==", ast.NotEq: "!=", ast.Is: "is", ast.IsNot: "is not"}


def mutants_of(path):
    src = open(path).read()
    lines = src.split("\n")
    tree = ast.parse(src)
    out = []

    def seg(n):
        return ast.get_source_segment(src, n)

    def single(n):
        return n.lineno == n.end_lineno

    def repl(lineno, c0, c1, text, what):
        ln = lines[lineno - 1]
        out.append({"line": lineno, "what": what, "new_line": ln[:c0] + text + ln[c1:], "old_line": ln, "kind": "line"})

    doc_ids = set()
    for n in ast.walk(tree):
        if isinstance(n, (ast.FunctionDef, ast.ClassDef, ast.Module, ast.AsyncFunctionDef)) and n.body and isinstance(n.body[0], ast.Expr) and isinstance(getattr(n.body[0], "value", None), ast.Constant) and isinstance(n.body[0].value.value, str):
            doc_ids.add(id(n.body[0]))
    for n in ast.walk(tree):
        if isinstance(n, ast.Compare) and len(n.ops) == 1 and type(n.ops[0]) in CMP and single(n):
            l, r = n.left, n.comparators[0]
            if l.end_lineno == r.lineno == n.lineno:
                mid = lines[n.lineno - 1][l.end_col_offset:r.col_offset]
                old = CMP_SRC[type(n.ops[0])]
                if old in mid:
                    new_mid = mid.replace(old, CMP[type(n.ops[0])], 1)
                    repl(n.lineno, l.end_col_offset, r.col_offset, new_mid, "cmp %s -> %s" % (old, CMP[type(n.ops[0])]))
        elif isinstance(n, ast.BoolOp) and single(n) and len(n.values) >= 2:
            a, b = n.values[0], n.values[1]
            mid = lines[n.lineno - 1][a.end_col_offset:b.col_offset]
            old, new = ("and", "or") if isinstance(n.op, ast.And) else ("or", "and")
            if (" %s " % old) in mid:
                repl(n.lineno, a.end_col_offset, b.col_offset, mid.replace(old, new, 1), "%s -> %s" % (old, new))
        elif isinstance(n, (ast.If, ast.While)) and single(n.test):
            t = n.test
            repl(t.lineno, t.col_offset, t.end_col_offset, "not (%s)" % seg(t), "negate condition")
        elif isinstance(n, ast.UnaryOp) and isinstance(n.op, ast.Not) and single(n):
            repl(n.lineno, n.col_offset, n.end_col_offset, "(%s)" % seg(n.operand), "drop not")
        elif isinstance(n, ast.Constant) and type(n.value) is int and single(n) and 0 <= n.value <= 3:
            repl(n.lineno, n.col_offset, n.end_col_offset, str(n.value + 1), "const %d -> %d" % (n.value, n.value + 1))
            if n.value > 0:
                repl(n.lineno, n.col_offset, n.end_col_offset, str(n.value - 1), "const %d -> %d" % (n.value, n.value - 1))
        elif isinstance(n, ast.Constant) and type(n.value) is bool and single(n):
            repl(n.lineno, n.col_offset, n.end_col_offset, str(not n.value), "const %s -> %s" % (n.value, not n.value))
        elif isinstance(n, ast.AugAssign) and isinstance(n.op, (ast.Add, ast.Sub)) and single(n):
            ln = lines[n.lineno - 1]
            old, new = ("+=", "-=") if isinstance(n.op, ast.Add) else ("-=", "+=")
            i = ln.find(old, n.target.end_col_offset)
            if i >= 0:
                repl(n.lineno, i, i + 2, new, "%s -> %s" % (old, new))
        elif isinstance(n, ast.Expr) and isinstance(n.value, ast.Call) and id(n) not in doc_ids:
            indent = lines[n.lineno - 1][:n.col_offset]
            if indent.strip() == "":
                out.append({"line": n.lineno, "end": n.end_lineno, "what": "remove call %s" % (seg(n.value.func) or "?"), "kind": "stmt", "indent": indent})
        elif isinstance(n, ast.With) and len(n.items) == 1 and single(n.items[0].context_expr):
            ce = seg(n.items[0].context_expr) or ""
            if any(k in ce.lower() for k in ("lock", "condition", "gate")):
                ln = lines[n.lineno - 1]
                if ln.rstrip().endswith(":") and n.items[0].optional_vars is None:
                    out.append({"line": n.lineno, "what": "remove lock `with %s`" % ce, "kind": "line", "old_line": ln,
                                "new_line": ln[:n.col_offset] + "if True:"})
        elif isinstance(n, ast.FunctionDef):
            for d in n.decorator_list:
                ds = seg(d) or ""
                if "synchronized" in ds and single(d):
                    ln = lines[d.lineno - 1]
                    out.append({"line": d.lineno, "what": "remove decorator @%s" % ds, "kind": "line", "old_line": ln, "new_line": ln[:d.col_offset - 1] + "# " + ln[d.col_offset - 1:]})
    return src, out


def apply(src, m):
    lines = src.split("\n")
    if m["kind"] == "line":
        lines[m["line"] - 1] = m["new_line"]
    else:
        lines[m["line"] - 1:m["end"]] = [m["indent"] + "pass"]
    return "\n".join(lines)


def main():
    args = sys.argv[1:]
    pid = args.pop(0)            # a property id, or "file:<reactivex/...py>" = every check anchored in that file (+ --checks)
    opt = {"--max": "60", "--jobs": "4", "--tier": "quick", "--seed": "0", "--files": "", "--checkjobs": "4", "--checks": ""}
    tests = False
    while args:
        a = args.pop(0)
        if a == "--tests":
            tests = True
        else:
            opt[a] = args.pop(0)
    props = [json.loads(l) for l in open(os.path.join(VERIF, "properties.jsonl"))]
    if pid.startswith("file:"):
        the_file = pid[5:]
        files = [the_file]
        check_ids = [p["id"] for p in props if the_file in p["anchors"]["files"]]
        if opt.get("--checks"):
            check_ids = sorted(set(check_ids) | set(opt["--checks"].split(",")))
        pid = "F_" + the_file.replace("reactivex/", "").replace("/", "_").replace(".py", "")
    else:
        prop = next(p for p in props if p["id"] == pid)
        check_ids = [pid]
        files = [f for f in (opt["--files"].split(",") if opt["--files"] else prop["anchors"]["files"]) if f.startswith("reactivex/") and f.endswith(".py")]
    rng = random.Random(int(opt["--seed"]))
    allm = []
    for f in files:
        p = os.path.join(REPO, f)
        if not os.path.exists(p):
            continue
        src, ms = mutants_of(p)
        for m in ms:
            m["file"] = f
            try:
                compile(apply(src, m), f, "exec")
            except SyntaxError:
                continue
            allm.append((src, m))
    rng.shuffle(allm)
    allm = allm[:int(opt["--max"])]
    root = "/tmp/mutscan/%s" % pid
    shutil.rmtree(root, ignore_errors=True)
    os.makedirs(root)
    outdir = os.path.join(VERIF, "out", "mutscan")
    os.makedirs(outdir, exist_ok=True)

    def one(k_sm):
        k, (src, m) = k_sm
        d = os.path.join(root, str(k))
        shutil.copytree(os.path.join(REPO, "reactivex"), os.path.join(d, "reactivex"), ignore=shutil.ignore_patterns("__pycache__"))
        with open(os.path.join(d, m["file"]), "w") as f:
            f.write(apply(src, m))
        rec = dict(m, id=k)
        env = dict(os.environ, VERIF_REPO=d, VERIF_JOBS=opt["--checkjobs"], VERIF_OUT_DIR=os.path.join(d, "out"), VERIF_EVID_DIR=os.path.join(d, "evid"),
                   VERIF_SEED=opt["--seed"], VERIF_UNIT_TIMEOUT="60")
        t0 = time.time()
        imp = subprocess.run([PY, "-c", "import reactivex, reactivex.operators, reactivex.scheduler, reactivex.subject, reactivex.testing"],
                             env=dict(os.environ, PYTHONPATH=d, PYTHONDONTWRITEBYTECODE="1"), capture_output=True, text=True)
        if imp.returncode != 0:
            rec["result"] = "import-error"
        else:
            rec["result"] = "SURVIVED"
            rec["by"] = None
            for ck in check_ids:
                try:
                    p = subprocess.run([os.path.join(VERIF, "check"), ck, opt["--tier"]], env=env, capture_output=True, text=True, timeout=300, cwd=VERIF)
                except subprocess.TimeoutExpired:
                    rec["result"] = "check-timeout"
                    continue
                if p.returncode == 1:
                    rec["result"], rec["by"] = "killed", ck
                    mech = [l.split("mech=")[1].split(" ")[0] for l in p.stdout.splitlines() if "mech=" in l]
                    rec["mechs"] = sorted(set(mech))[:4]
                    break
                if p.returncode == 2 and rec["result"] == "SURVIVED":
                    rec["result"] = "inconclusive"
            if rec["result"] in ("SURVIVED", "inconclusive") and tests:
                os.symlink(os.path.join(REPO, "tests"), os.path.join(d, "tests"))
                for cfg in ("pyproject.toml", "setup.cfg", "pytest.ini", "tox.ini"):
                    if os.path.exists(os.path.join(REPO, cfg)):
                        shutil.copy(os.path.join(REPO, cfg), d)
                try:
                    t = subprocess.run([PY, "-m", "pytest", "-q", "-x", "-p", "no:cacheprovider", "--timeout=300", "tests"], cwd=d,
                                       env=dict(os.environ, PYTHONPATH=d, PYTHONDONTWRITEBYTECODE="1"), capture_output=True, text=True, timeout=900)
                    rec["tests"] = "pass" if t.returncode == 0 else "fail"
                except subprocess.TimeoutExpired:
                    rec["tests"] = "timeout"
        rec["secs"] = round(time.time() - t0, 1)
        shutil.rmtree(d, ignore_errors=True)
        for key in ("indent",):
            rec.pop(key, None)
        print("%-12s %s:%d %s%s%s | %s" % (rec["result"], m["file"].replace("reactivex/", ""), m["line"], m["what"], (" tests=" + rec["tests"]) if "tests" in rec else "",
                                          (" by=" + rec["by"]) if rec.get("by") else "", (m.get("old_line") or "").strip()[:90]), flush=True)
        return rec

    with ThreadPoolExecutor(int(opt["--jobs"])) as ex:
        recs = list(ex.map(one, enumerate(allm)))
    shutil.rmtree(root, ignore_errors=True)
    with open(os.path.join(outdir, pid + ".jsonl"), "w") as f:
        for r in recs:
            f.write(json.dumps(r) + "\n")
    from collections import Counter
    c = Counter(r["result"] + ("/tests-" + r["tests"] if "tests" in r else "") for r in recs)
    print("SUMMARY", pid, dict(c))


main()
