#!/usr/bin/env python3
"""Regenerates MANIFEST.json from vf/manifest_table.py (claimed checks) and properties.jsonl."""
import json
import os
import sys

HERE = os.path.dirname(os.path.dirname(os.path.abspath(__file__)))
sys.path.insert(0, HERE)
from vf.manifest_table import CHECKS, ENGINES, NOT_APPLICABLE, NOTES  # noqa: E402

props = [json.loads(l) for l in open(os.path.join(HERE, "properties.jsonl"))]
ids = [p["id"] for p in props]
checks = []
for pid in ids:
    c = CHECKS.get(pid)
    if c is None:
        continue
    if not os.path.exists(os.path.join(HERE, "vf", "props", pid.lower() + ".py")):
        raise SystemExit("claimed but no module: " + pid)
    checks.append({
        "property_id": pid,
        "quick_cmd": "./check %s quick" % pid,
        "thorough_cmd": "./check %s thorough" % pid,
        "evidence_file": "/verif/evidence/%s.json" % pid,
        "replay_cmd_template": "./check %s --replay {path}" % pid,
        "engine": c["engine"],
        "level_claimed": {"category": c.get("category", "exploration"), "text": c["text"], "design_ref": c.get("design_ref", "DESIGN.md §5 " + pid)},
        "level_note": c["note"],
        "technique": c["technique"],
    })
na = []
for pid in ids:
    if pid not in CHECKS:
        na.append({"property_id": pid, "reason": NOT_APPLICABLE.get(pid, "check not built yet (planned per DESIGN.md §5 %s); not claimed until its monitor runs clean on the unchanged tree" % pid)})
m = {
    "version": 1,
    "setup_cmd": "cd /verif && /venv/bin/python -m compileall -q vf >/dev/null; /venv/bin/python -c \"import sys; sys.path.insert(0,'/verif'); import vf.cli\"",
    "hooks": {
        "guard": "REACTIVEX_RXPY_VERIF",
        "enable": "no instrumentation is committed to /repo; ./check exports REACTIVEX_RXPY_VERIF=1 (reserved, unused by /repo) and applies all hooks from the harness at run time (sys.monitoring, threading-primitive substitution during import, ScheduledItem.invoke wrapper, default_now)",
        "baseline_off_cmd": "cd /repo && /venv/bin/python -m pytest -ra -q -p no:cacheprovider --timeout=900 --continue-on-collection-errors",
        "source_commits": [],
        "add_only": True,
    },
    "engines": ENGINES,
    "checks": checks,
    "notes": NOTES,
    "not_applicable": na,
}
with open(os.path.join(HERE, "MANIFEST.json"), "w") as f:
    json.dump(m, f, indent=1)
    f.write("\n")
print("checks:", len(checks), "not_applicable:", len(na))
