#!/usr/bin/env python3
"""tools/seed_verify.py <ID> <round> [--checks C05,C08] [--tier quick]

Independently confirms a seeded change produced by a sub-agent in /tmp/seed/<ID>_r<round>/ and records it:
  1. fresh scratch worktree of /repo HEAD: demo.py must exit 0;
  2. apply patch.diff there: demo.py must exit non-zero, the repository's test suite must still pass;
  3. run the named checks (default: the property's own) against that patched worktree (VERIF_REPO) and note who catches it;
  4. copy patch.diff, demo.py, notes.md + meta.json to /verif/seeded/<ID>-r<round>/ and remove the scratch worktree.
(While build agents are using /repo the patched tree is handed to the checks through VERIF_REPO instead of `git -C /repo apply`;
 tools/seed_sweep.py later re-runs everything by really applying the patches to /repo.)
"""
import json
import os
import re
import shutil
import subprocess
import sys
import time

pid, rnd = sys.argv[1], sys.argv[2]
checks = [pid]
tier = "quick"
args = sys.argv[3:]
while args:
    a = args.pop(0)
    if a == "--checks":
        checks = args.pop(0).split(",")
    elif a == "--tier":
        tier = args.pop(0)
src = "/tmp/seed/%s_r%s" % (pid, rnd)
patch, demo = os.path.join(src, "patch.diff"), os.path.join(src, "demo.py")
for f in (patch, demo):
    if not os.path.exists(f):
        sys.exit("missing " + f)
wt = "/tmp/seedv/%s_r%s" % (pid, rnd)
subprocess.run(["git", "-C", "/repo", "worktree", "remove", "--force", wt], capture_output=True)
shutil.rmtree(wt, ignore_errors=True)
os.makedirs(os.path.dirname(wt), exist_ok=True)
subprocess.run(["git", "-C", "/repo", "worktree", "add", "--detach", wt, "HEAD"], check=True, capture_output=True)
env = dict(os.environ, PYTHONPATH=wt, PYTHONDONTWRITEBYTECODE="1")


def run(cmd, cwd=None, timeout=900, extra=None):
    e = dict(env)
    if extra:
        e.update(extra)
    t0 = time.time()
    try:
        p = subprocess.run(cmd, cwd=cwd, env=e, capture_output=True, text=True, timeout=timeout)
        return p.returncode, (p.stdout + p.stderr)[-3000:], time.time() - t0
    except subprocess.TimeoutExpired:
        return 124, "timeout", time.time() - t0


meta = {"property": pid, "round": int(rnd), "repo_head": subprocess.check_output(["git", "-C", "/repo", "log", "--format=%h", "-1"], text=True).strip()}
rc0, out0, _ = run(["/venv/bin/python", demo], cwd=src, timeout=120)
meta["demo_without_change_exit"] = rc0
ap = subprocess.run(["git", "-C", wt, "apply", patch], capture_output=True, text=True)
if ap.returncode != 0:
    # the repository moved on (a later fix touched the context lines): merge the change onto HEAD and keep the refreshed patch
    ap = subprocess.run(["git", "-C", wt, "apply", "--3way", patch], capture_output=True, text=True)
    if ap.returncode == 0:
        subprocess.run(["git", "-C", wt, "reset", "-q"], check=True)
        with open(patch, "w") as f:
            f.write(subprocess.check_output(["git", "-C", wt, "diff"], text=True))
        print("patch refreshed against HEAD (3-way)")
if ap.returncode != 0:
    print("PATCH DOES NOT APPLY:", ap.stderr[:500])
    meta["applies"] = False
else:
    meta["applies"] = True
    rc1, out1, _ = run(["/venv/bin/python", demo], cwd=src, timeout=120)
    meta["demo_with_change_exit"] = rc1
    meta["demo_with_change_output"] = out1[-600:]
    rct, outt, tt = run(["/venv/bin/python", "-m", "pytest", "-q", "-p", "no:cacheprovider", "-x", "tests"], cwd=wt, timeout=900)
    meta["test_suite_with_change"] = {"exit": rct, "summary": outt.strip().splitlines()[-1] if outt.strip() else ""}
    meta["files_changed"] = re.findall(r"^\+\+\+ b/(.*)$", open(patch).read(), re.M)
    ok = rc0 == 0 and rc1 != 0 and rct == 0
    meta["confirmed"] = ok
    print("confirmed" if ok else "NOT CONFIRMED", "demo", rc0, "->", rc1, "tests", rct, meta["test_suite_with_change"]["summary"])
    if ok:
        meta["checks"] = {}
        for ck in checks:
            rc, out, dt = run(["./check", ck, tier], cwd="/verif", timeout=3600, extra={"VERIF_REPO": wt, "VERIF_UNIT_TIMEOUT": "600", "VERIF_EVID_DIR": "/tmp/seedv/evid", "VERIF_OUT_DIR": "/tmp/seedv/out"})
            mechs = sorted(set(re.findall(r"mech=(\S+)", out)))[:12]
            verdict = {0: "MISSED (exit 0)", 1: "CAUGHT (exit 1)", 2: "INCONCLUSIVE (exit 2)"}.get(rc, "exit %s" % rc)
            line = next((l for l in out.splitlines() if re.match(r"^C\d+ (HELD|VIOLATED|INCONCLUSIVE)", l)), "")
            meta["checks"][ck] = {"cmd": "VERIF_REPO=<patched worktree> ./check %s %s" % (ck, tier), "exit": rc, "verdict": verdict, "mechs": mechs, "summary": line[:200], "wall_s": round(dt, 1)}
            print(" ", ck, verdict, mechs[:4])
notes = os.path.join(src, "notes.md")
meta["needs_to_manifest"] = open(notes).read()[:2500] if os.path.exists(notes) else ""
dst = "/verif/seeded/%s-r%s" % (pid, rnd)
os.makedirs(dst, exist_ok=True)
for f in ("patch.diff", "demo.py", "notes.md"):
    if os.path.exists(os.path.join(src, f)):
        shutil.copy(os.path.join(src, f), os.path.join(dst, f))
with open(os.path.join(dst, "meta.json"), "w") as f:
    json.dump(meta, f, indent=1)
subprocess.run(["git", "-C", "/repo", "worktree", "remove", "--force", wt], capture_output=True)
shutil.rmtree(wt, ignore_errors=True)
