#!/bin/bash
# tools/mutscan_files.sh [max-per-file] [jobs]: per-file mutation scan over every source file some property is anchored in;
# a mutant counts as killed when ANY check anchored in that file reports a violation. Prints what is not killed.
cd "$(dirname "$0")/.."
MAX=${1:-10}; JOBS=${2:-4}; SKIP=${3:-0}
FILES=$(python3 - <<'P'
import json,collections
m=collections.OrderedDict()
for l in open('properties.jsonl'):
    d=json.loads(l)
    for f in d['anchors']['files']:
        if f.startswith('reactivex/') and f.endswith('.py'): m[f]=1
print(' '.join(m))
P
)
N=0
for F in $FILES; do
  N=$((N+1)); [ $N -le $SKIP ] && continue
  [ -f /repo/$F ] || continue
  python3 tools/mutscan.py file:$F --max $MAX --jobs $JOBS --tests 2>&1 | grep -E "^SURVIVED|^inconclusive|^check-timeout|^SUMMARY"
done
